#!/usr/bin/env python3
"""usage: try_benign.py <patchdir> : scratch copy of /repo + patch.diff, run the quick check of every property whose units verify the body of a
function the patch touches; print every VIOLATION (a false alarm if the patch is behaviour preserving), UNDECIDED and summary line."""
import glob, json, os, re, subprocess, sys
sys.path.insert(0, '/verif/vx')
import props as P
pd = sys.argv[1].rstrip('/')
diff = open(pd + '/patch.diff').read()
fns = set()
# enclosing function of every hunk: scan the ORIGINAL file backwards from the first changed line of the hunk
cur = None
for ln in diff.split('\n'):
    m = re.match(r'\+\+\+ b/(\S+)', ln)
    if m:
        cur = m.group(1)
    m = re.match(r'@@ -(\d+)(?:,(\d+))? \+', ln)
    if m and cur and os.path.exists('/repo/' + cur):
        src = open('/repo/' + cur).read().split('\n')
        start = int(m.group(1)) + 3            # first changed line is after the context lines
        for k in range(min(start, len(src)) - 1, -1, -1):
            mm = re.match(r'\s*(?:pub(?:\([a-z]+\))? )?(?:async )?(?:const )?fn (\w+)', src[k])
            if mm:
                fns.add(mm.group(1))
                break
    m = re.match(r'[-+ ]\s*(?:pub(?:\([a-z]+\))? )?(?:async )?(?:const )?fn (\w+)', ln)
    if m:
        fns.add(m.group(1))
files = set(re.findall(r'^\+\+\+ b/(\S+)', diff, re.M))
units = set()
for f in glob.glob('/verif/gen/*.map.json'):
    m = json.load(open(f))
    stub = set(m.get('stubbed', []))
    for q, ov in m['overlays'].items():
        if q in stub or ov.get('stub'):
            continue
        if q.split('::')[-1] in fns and ov.get('file') in files:
            units.add(m['unit'])
props = sorted(p for p, s in P.PROPS.items() if units & set(s.get('units', [])))
if any(f.startswith('crates/') for f in files):
    props = sorted(set(props) | {p for p, s in P.PROPS.items() if s.get('kani') and (fns & {'tick', 'update_loss_ewma', 'perform_window_recovery', 'cc_soft_cap_multiplier', 'calculate_quality_multiplier_uncached', 'effective_stall_stale_ms', 'keepalive_packet', 'parse_srt_nak', 'parse_srt_ack', 'parse_srtla_ack'})})
print('patch', pd, 'functions', sorted(fns), 'units', sorted(units), 'properties', props)
S = '/tmp/sr_' + os.path.basename(pd)
subprocess.run(['rm', '-rf', S]); subprocess.run(['rsync', '-a', '--exclude', 'target', '--exclude', '.git', '/repo/', S + '/'])
r = subprocess.run('cd %s && patch -p1 -s < %s/patch.diff' % (S, pd), shell=True)
if r.returncode:
    print('PATCH DOES NOT APPLY'); sys.exit(1)
for p in props:
    out = subprocess.run(['./check', p, 'quick'], cwd='/verif', env=dict(os.environ, VERIF_REPO=S, VERIF_GEN_DIR=S + '/.gen'), capture_output=True, text=True).stdout
    for ln in out.split('\n'):
        if re.match(r'VIOLATION|UNDECIDED|C\d\d quick', ln) and 'ledger obligations' not in ln:
            print('  ', ln[:260])
subprocess.run(['rm', '-rf', S, '/verif/.cache/kx-alt-_tmp_sr_' + os.path.basename(pd)])
