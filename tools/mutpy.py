import subprocess,re,os,shutil,sys
def mut(unit, rel, pat, rep, flags=0):
    shutil.rmtree('/tmp/mrepo',ignore_errors=True)
    subprocess.run(['rsync','-a','--exclude','target','--exclude','.git','/repo/','/tmp/mrepo/'])
    p='/tmp/mrepo/'+rel; s=open(p).read()
    s2=re.sub(pat,rep,s,count=1,flags=flags)
    if s2==s: print('PATTERN DID NOT MATCH', pat); return
    open(p,'w').write(s2)
    r=subprocess.run(['python3','/verif/tools/run_unit.py',unit],env=dict(os.environ,VERIF_REPO='/tmp/mrepo'),capture_output=True,text=True)
    print('\n'.join(l for l in (r.stdout+r.stderr[-500:]).split('\n') if not l.startswith('  T')))
