import sys, json, importlib
sys.path.insert(0,'/verif/vx'); sys.path.insert(0,'/verif/vx/units')
import verus
name=sys.argv[1]
m=importlib.import_module(name)
u=m.build()
path,meta=u.write()
r=verus.run(path, rlimit=getattr(m,'RLIMIT',None))
verus.attribute(r,meta)
print('verified',r['verified'],'errors',r['errors'],'fe',r['front_end_error'],'wall',round(r['wall_s'],1))
for m_ in r['front_end_msgs'][:30]: print('FE:',m_)
for d in r['diags']:
    print(d['kind'],'|',d['msg'],'|',d['function'],'|',d['tags'],'|',[(s['l0'],s['label']) for s in d['spans']])
if r["raw_err"] and "-vv" in sys.argv: print(r["raw_err"][-6000:])
slow=sorted(r['functions'],key=lambda f:-f['time_us'])[:8]
for f in slow: print('  T', f['function'], round(f['time_us']/1e6,2),'s rlimit',f['rlimit'], f['success'])
