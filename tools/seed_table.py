#!/usr/bin/env python3
"""usage: seed_table.py <results-file> <id-regex> : markdown table of the seeded changes whose id matches, from seeded/<id>/meta.json and the
verdicts of the last regression run (tools/run_all_seeds.sh output: `<id> CAUGHT|UNDECIDED|MISSED obligation=...`)."""
import json, os, re, sys
res = {}
for ln in open(sys.argv[1]):
    p = ln.split()
    if len(p) >= 2 and re.fullmatch(r'C\d\d[a-z]', p[0]):
        res[p[0]] = (p[1], (p[2][len('obligation='):] if len(p) > 2 and p[2].startswith('obligation=') else ''))
rx = re.compile(sys.argv[2])
print('| seed | needs, to manifest | verdict of the final regression (first failing obligation) | history |')
print('|---|---|---|---|')
for sid in sorted(os.listdir('/verif/seeded')):
    if not rx.fullmatch(sid) or not os.path.exists('/verif/seeded/%s/meta.json' % sid):
        continue
    m = json.load(open('/verif/seeded/%s/meta.json' % sid))
    v, ob = res.get(sid, ('?', ''))
    verdict = {'CAUGHT': '`%s`' % ob, 'UNDECIDED': '— (exit 2)', 'MISSED': '**missed** (exit 0)'}.get(v, v)
    hist = m.get('detected_by', '')
    print('| %s | %s | %s | %s |' % (sid, m.get('needs_to_manifest', '').replace('|', '/'), verdict, hist.replace('|', '/')))
