#!/usr/bin/env python3
"""usage: benign_table.py <logdir> : markdown table over the logs written by tools/try_benign.py (one per patch in seeded_benign/)."""
import glob, os, re, sys
d = sys.argv[1]
print('| patch | function(s) touched | properties checked | check runs | exit 1 (false alarms) | exit 2 (undecided) |')
print('|---|---|---|---|---|---|')
tot = [0, 0, 0, 0]
for f in sorted(glob.glob(d + '/sb_*.log')):
    if f.endswith('.rerun.log'):
        continue
    t = open(f).read()
    m = re.search(r"functions \[([^\]]*)\] units \[[^\]]*\] properties \[([^\]]*)\]", t)
    fns = m.group(1).replace("'", '') if m else '?'
    props = m.group(2).replace("'", '') if m else '?'
    runs = re.findall(r'C\d\d quick: .*?violations=(\d+) known=\d+ undecided=(\d+)', t)
    viol = sum(1 for v, u in runs if int(v) > 0)
    und = sum(1 for v, u in runs if int(u) > 0 and int(v) == 0)
    tot[0] += 1; tot[1] += len(runs); tot[2] += viol; tot[3] += und
    print('| %s | %s | %s | %d | %d | %d |' % (os.path.basename(f)[:-4], fns, props, len(runs), viol, und))
print()
print('%d patches, %d check runs, %d with exit 1, %d with exit 2' % tuple(tot))
