#!/bin/bash
# usage: mut.sh <unit> <relfile> <python-regex> <replacement>   (scratch mutation test against a copy of /repo)
set -e
rm -rf /tmp/mrepo && mkdir -p /tmp/mrepo
rsync -a --exclude target --exclude .git /repo/ /tmp/mrepo/
python3 - "$2" "$3" "$4" <<'PY'
import sys,re
p='/tmp/mrepo/'+sys.argv[1]
s=open(p).read()
n=len(re.findall(sys.argv[2],s))
s2=re.sub(sys.argv[2],sys.argv[3],s,count=1)
assert s2!=s, 'pattern did not match'
open(p,'w').write(s2)
print('mutated',p,'matches',n)
PY
VERIF_REPO=/tmp/mrepo python3 /tmp/run_unit.py $1
