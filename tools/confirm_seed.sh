#!/bin/bash
# usage: confirm_seed.sh <worktree> <seeddir> <demo test filter | binary:<name>>
# confirms: patch applies; full suite passes with patch; demo fails with patch; demo passes without patch
WT=$1; SD=$2; F=$3
case "$F" in binary:*) FA=(-E "binary(${F#binary:})");; *) FA=("$F");; esac
cd $WT || exit 9
git checkout -q -- . ; git clean -fdq -e target
git apply $SD/patch.diff || { echo "PATCH DOES NOT APPLY"; exit 1; }
echo "== suite with patch"; cargo nextest run --workspace --no-fail-fast --offline --test-threads 8 2>&1 | grep -E "Summary|FAIL " | head -5
git apply $SD/demo.diff || { echo "DEMO DOES NOT APPLY on patched"; exit 1; }
echo "== demo with patch (expect FAIL)"; cargo nextest run --workspace --no-fail-fast --offline --test-threads 8 "${FA[@]}" 2>&1 | grep -E "Summary|FAIL |PASS " | head -8
git checkout -q -- . ; git clean -fdq -e target
git apply $SD/demo.diff || { echo "DEMO DOES NOT APPLY on clean"; exit 1; }
echo "== demo without patch (expect PASS)"; cargo nextest run --workspace --no-fail-fast --offline --test-threads 8 "${FA[@]}" 2>&1 | grep -E "Summary|FAIL |PASS " | head -8
git checkout -q -- . ; git clean -fdq -e target
