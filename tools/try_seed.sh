#!/bin/bash
# usage: try_seed.sh <seeddir> <prop> [more props]  : apply patch to /repo, run checks, revert
SD=$1; shift
cd /repo && git status --short | grep -v '^??' | head -3
git -C /repo apply $SD/patch.diff || { echo "PATCH DOES NOT APPLY to /repo"; exit 1; }
for p in "$@"; do (cd /verif && ./check $p quick 2>&1 | grep -E "VIOLATION|KNOWN|UNDECIDED|quick:" | cut -c1-260); echo "  exit=$?"; done
git -C /repo checkout -- .
git -C /repo status --short | grep -v '^??' | head -3
