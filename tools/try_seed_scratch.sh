#!/bin/bash
# usage: try_seed_scratch.sh <seeddir> <prop> [more props] : scratch copy of /repo + patch, run checks with VERIF_REPO, remove copy
SD=$1; shift
S=/tmp/sr_$(basename $SD)
rm -rf $S; rsync -a --exclude target --exclude .git /repo/ $S/
(cd $S && patch -p1 -s < $SD/patch.diff) || { echo "PATCH DOES NOT APPLY"; rm -rf $S; exit 1; }
for p in "$@"; do (cd /verif && VERIF_GEN_DIR=$S/.gen VERIF_REPO=$S ./check $p quick 2>&1 | grep -E "VIOLATION|KNOWN|UNDECIDED|quick:" | cut -c1-330); done
rm -rf $S /verif/.cache/kx-alt-_tmp_sr_$(basename $SD)
