#!/bin/bash
# usage: confirm_all.sh <worktree> <seeddir>...   (filter derived from the new test file in demo.diff; files under tests/ are test binaries)
WT=$1; shift
for SD in "$@"; do
  P=$(grep -E '^\+\+\+ b/.*\.rs' $SD/demo.diff | grep -v 'mod.rs' | head -1 | sed 's#^+++ b/##')
  F=$(basename $P .rs)
  case "$P" in tests/*|crates/*/tests/*) F="binary:$F";; esac
  echo "##### $SD filter=$F"
  /verif/tools/confirm_seed.sh $WT $SD $F
done
