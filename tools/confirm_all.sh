#!/bin/bash
# usage: confirm_all.sh <worktree> <seeddir>...   (filter derived from the new test file in demo.diff)
WT=$1; shift
for SD in "$@"; do
  F=$(grep -E '^\+\+\+ b/.*\.rs' $SD/demo.diff | grep -v 'mod.rs' | head -1 | sed 's#.*/##; s#\.rs##')
  echo "##### $SD filter=$F"
  /verif/tools/confirm_seed.sh $WT $SD $F
done
