#!/bin/bash
# regression over every kept seeded change: scratch copy + patch, run the check of the property it breaks, report verdict
# usage: run_all_seeds.sh [jobs]   -> /tmp/seedreg/<id>.log, summary on stdout
J=${1:-6}
mkdir -p /tmp/seedreg
ls /verif/seeded | xargs -P $J -I{} bash -c '
  id={}; p=$(python3 -c "import json;print(json.load(open(\"/verif/seeded/$id/meta.json\"))[\"breaks_property\"])")
  /verif/tools/try_seed_scratch.sh /verif/seeded/$id $p > /tmp/seedreg/$id.log 2>&1'
for f in /tmp/seedreg/*.log; do id=$(basename $f .log)
  if grep -q "^VIOLATION" $f; then v=CAUGHT; elif grep -q UNDECIDED $f; then v=UNDECIDED; else v=MISSED; fi
  echo "$id $v $(grep -m1 -o "obligation=[^ ]*" $f)"
done
