#!/usr/bin/env python3
"""usage: stability.py [seeds...] : every unit x every solver seed on the current tree; prints units/functions that do not verify (flaky proofs)"""
import sys, importlib
sys.path.insert(0, '/verif/vx'); sys.path.insert(0, '/verif/vx/units')
import verus
seeds = [int(x) for x in sys.argv[1:]] or [1, 2, 3, 4, 5, 6]
for un in ['core_all', 'route', 'events', 'hk', 'reg', 'cls', 'drain', 'conns', 'proto', 'reload', 'ctl', 'ccglue']:
    m = importlib.import_module(un); u = m.build(); p, meta = u.write('/tmp/stab')
    for seed in seeds:
        r = verus.run(p, rlimit=getattr(m, 'RLIMIT', None), seed=seed)
        verus.attribute(r, meta)
        bad = sorted({(d.get('function') or '?') + ':' + d['kind'] for d in r['diags']})
        print(un, 'seed', seed, 'verified', r['verified'], 'errors', r['errors'], 'fe', r['front_end_error'], round(r['wall_s'], 1), bad[:4], flush=True)
