import json,sys,shutil,os
sid,src,prop,needs,detected=sys.argv[1:6]
d='/verif/seeded/'+sid
os.makedirs(d,exist_ok=True)
for f in ('patch.diff','demo.diff','NOTES.md'):
    if os.path.exists(src+'/'+f): shutil.copy(src+'/'+f,d+'/'+f)
json.dump(dict(id=sid,breaks_property=prop,needs_to_manifest=needs,
  confirmed=dict(suite_with_patch='424 passed (cargo nextest run --workspace --offline)',demo_with_patch='FAILS',demo_without_patch='PASSES',how='/tmp/confirm_seed.sh in a scratch worktree (patch applied, suite run; demo applied, run; patch reverted, demo run)'),
  source='independent sub-agent given only the property text and its own worktree',
  checks_run='git -C /repo apply patch.diff; ./check <prop> quick; git -C /repo checkout -- .',
  detected_by=detected),open(d+'/meta.json','w'),indent=1)
print('kept',d)
