"""Free text for MANIFEST.json."""
BASELINE_OFF = 'cd /repo && cargo test --workspace --no-fail-fast --offline'
HOOK_COMMITS = []
KANI_SERVES = []
NOTES = ('Contract-based deductive verification (Verus, unbounded) of the real function bodies, extracted mechanically on every run; '
         'Kani on the compiled crates for float / byte-level clauses. exit 2 = undecided (lost anchor, unsupported construct, resource limit), never an alarm.')

PENDING = 'not yet built in this session (work in progress, see DESIGN.md 13 for the build order)'
NOT_APPLICABLE = {('C%02d' % i): PENDING for i in range(1, 21)}
NOT_APPLICABLE['C20'] = ('every clause is about interleavings of tokio tasks contending for a Mutex and bounded mpsc channels (publish never blocks, per-subscriber order, '
                         'nothing after unsubscribe); Kani has no async/thread model and Verus would need the hub rewritten with its permission types, which would be a model, not the code (DESIGN.md 9)')

TEXT = {
    'C15': dict(
        level='Every decoder of srtla-protocol is verified by Verus against a spec function of the input bytes for ALL byte strings of ANY length (no bound): '
              'panic freedom (index / overflow obligations), exact layouts (type at 0..2, SRT ACK number at 16..20, data = clear top bit, retransmit flag bit 2 of byte 4, '
              'SRTLA ACK = 4-byte header + big-endian u32 list, keepalive timestamp / extended telemetry offsets), the NAK loss list as a recursive spec (ranges by top bit, '
              'expansion stops at 1000 entries) and the entry bound 1000 + (len-4)/4. Builders and builder/decoder round trips are decided by Kani harnesses on the compiled crate.',
        note='Trusted: the extractor and its rewrite rules (text of the bodies is copied from /repo each run), SmallVec treated as Vec, '
             'u16/u32/i32::from_be_bytes specified as shift-or of the bytes (validated by a Kani harness), Verus + Z3.',
        technique='deductive verification (Verus) of the extracted real decoders against byte-level spec functions',
        design_ref='DESIGN.md 8 C15',
    ),
}
