"""Free text for MANIFEST.json."""
BASELINE_OFF = 'cd /repo && cargo test --workspace --no-fail-fast --offline'
HOOK_COMMITS = ['529f906', 'aaa3a9d', 'e152e67', '7e70921']
KANI_SERVES = ['C06', 'C07', 'C11', 'C13', 'C14', 'C15', 'C16']
NOTES = ('Contract-based deductive verification (Verus, unbounded) of the real function bodies, extracted mechanically on every run; '
         'Kani on the compiled crates for float / byte-level clauses. exit 2 = undecided (lost anchor, unsupported construct, resource limit), never an alarm.')

PENDING = 'not yet built in this session (work in progress, see DESIGN.md 13 for the build order)'
NOT_APPLICABLE = {('C%02d' % i): PENDING for i in range(1, 21)}
NOT_APPLICABLE['C20'] = ('every clause is about interleavings of tokio tasks contending for a Mutex and bounded mpsc channels (publish never blocks, per-subscriber order, '
                         'nothing after unsubscribe); Kani has no async/thread model and Verus would need the hub rewritten with its permission types, which would be a model, not the code (DESIGN.md 9)')

def _t(level, note, technique, ref):
    return dict(level=level, note=note, technique=technique, design_ref=ref)


COMMON_NOTE = ('Trusted: the extractor and rewrite rules R0-R16 (function bodies are copied from /repo on every run; logging dropped, SmallVec=Vec, FxHashMap=HashMap, '
               'for-loops turned into cursor loops), prelude stubs for std (integer ones re-proved by Kani), floats uninterpreted in Verus, Verus+Z3, Kani+CBMC. '
               'Machine arithmetic: clocks < 2^62, event counters < 2^63. exit 2 = undecided, never an alarm.')

TEXT = {
    'C01': _t('Verus proves on the extracted real functions (async erased, sockets stubbed), for any number of links and all inputs: the per-link queue is FIFO and pairs each datagram with its sequence number and time; '
              'take_batch / drain return exactly the queued bytes in order and register exactly the tracked sequence numbers; send_all_datagrams hands every datagram to the socket once, in order, or returns Err (ghost wire log, '
              'short sendmmsg results handled, termination proved); forward_via_connection touches only the selected link, appends the unchanged bytes there (or the batch was flushed) and leaves < 32 queued when a socket exists; '
              'duplicate probes go only to stall-gated connected links other than the selected one, identical bytes, exactly when the per-link counter reaches 100; a flush tick empties every queue that has a socket.',
              COMMON_NOTE + ' Out of reach: the 15 ms timer itself and the interleaving of event-loop arms (scheduling); sockets are stubs (send_batch: Ok(n) => n <= offered).',
              'deductive verification (Verus) of extracted real functions with ghost wire logs and whole-slice frame postconditions', 'DESIGN.md 8 C01'),
    'C02': _t('Verus proves, for all states and all sequence numbers (no bound on history length: one-step contracts + invariant count == |packet log|), that every accounting '
              'function of a link (register, cumulative ACK incl. the <=64 fast path and the retain path, per-packet SRTLA ACK, NAK, the three resets, take_batch) keeps the '
              'in-flight count equal to the size of the set of held sequence numbers, retires exactly the stated set, leaves the link untouched for sequence numbers it does not hold, '
              'and that a cumulative ACK leaves nothing at or below it (independent of earlier ACKs, via the log-above-high-water invariant).',
              COMMON_NOTE + ' Dispatch across links (arrival link first, then one other holder) is covered by the shell unit when built.',
              'deductive verification (Verus) of extracted real functions: representation invariant + exact set-valued postconditions', 'DESIGN.md 8 C02'),
    'C03': _t('Verus proves for ANY number of links, both modes and every configuration: the stall gate never excludes the last usable link (usable = connected, registered, not timed out); the classic selector returns a link whenever a connected eligible link exists; '
              'the enhanced selector returns a link whenever a connected eligible link exists even with the in-flight cap, weak and loss gates engaged (the cap hard-skip applies only while an unconstrained connected link exists); '
              'and select_connection_idx composes them: a usable uplink exists => Some. The one float fact needed (the score of a connected candidate exceeds the -1.0 start score) is a lemma assumed in Verus and proved bit-precisely by Kani, '
              'together with the ranges of the quality multiplier and the soft-cap factor on the real functions. Panic freedom of the whole selection path is claimed and proved (e.g. Ord::clamp with min > max in the effective stall window would be a violation).',
              COMMON_NOTE + ' A genuine defect found by this check (a link that lost its registration counted as the healthy alternative -> blackout) was repaired in /repo (fix: commit 6932b94).',
              'deductive verification (Verus) with existential postconditions + Kani float-lemma table', 'DESIGN.md 8 C03'),
    'C04': _t('Verus proves for any number of links, both modes, every configuration and packet kind: both selectors (incl. the hysteresis return) and select_connection_idx return only an uplink that is schedulable, '
              'not timed out and not stall-gated on the post-selection state; select_best_quality_idx never returns a registering, disconnected or stall-gated link; and at the single call site that routes stream data '
              '(handle_srt_packet -> forward_via_connection, after the priority override) the chosen uplink is eligible. Duplicate probes are confined to gated links by the frame of send_stall_probes. Also: is_schedulable is exactly "registered", is_stall_gated reads the gate flag, the gate leaves every link carrying the configured timeout at every exit, and no registration handler ever clears the session-established flag (unit reg).',
              COMMON_NOTE + ' A genuine defect found by this check (override onto gated / timed-out links) was repaired in /repo (fix: commit 6b49631).',
              'deductive verification (Verus): eligibility postconditions on the schedulers + tagged assertion at the routing call site', 'DESIGN.md 8 C04'),
    'C05': _t('Verus proves: the sequence tracker remembers a carrier exactly while the slot holds the same sequence number and is not older than 5000 ms, insert overwrites exactly one slot, remove_connection purges exactly that link; '
              'attribute_nak (any number of links, distinct ids) charges at most one link, only a holder, exactly -100 floored at 1000 / one loss count / one in-flight slot, changes nothing for an unknown NAK, and while the tracker '
              'remembers a carrier that is present no other link can be charged (no fall-through); the tracker records the carrier of the unique copy at queue time and probes never touch it. Every iteration of the NAK loop either runs the one-charge step (attribute_nak) or leaves every link unchanged.',
              COMMON_NOTE, 'deductive verification (Verus) of extracted real functions; bit-vector lemma for the ring index', 'DESIGN.md 8 C05'),
    'C06': _t('Verus proves for every window value and every in-flight count in 0..i32::MAX: range [1000,60000] preserved by every function taking the window, start/reset value 20000, '
              'NAK = exactly -100 floored at 1000 (never increases), earned SRTLA ACK = +29 capped only when in-flight*1000 (saturating) exceeds the window (never decreases), global +1 capped, '
              'fast-recovery entered only at <= 2000 and left only at >= 12000 or by reset. Time-based recovery (float cast) is decided by Kani on the real function.',
              COMMON_NOTE, 'deductive verification (Verus) with exact-delta postconditions; Kani complete harness for the float part', 'DESIGN.md 8 C06'),
    'C07': _t('Verus proves the registration state machine function by function for all states, indices, buffers and clock values: REG1 emitted (driver / immediate / build_reg1_for) only while no uplink '
              'is registered and none is outstanding, marks exactly that uplink outstanding with a deadline of send+4000 ms and carries the adopted id; REG2 accepted only from the outstanding uplink '
              'and only with >= 258 bytes (else whole-state identity), adopts bytes 2..258 and schedules exactly one broadcast; REG_ERR cancels; clear_pending abandons exactly when the deadline passed; '
              'no inbound packet can make a REG1 outstanding. Packet layouts by Kani on the real builders. The REG2 broadcast round is offered to every uplink that has a socket (ghost send log), housekeeping returns Err only after the global timeout of a total outage, and update_active_connections counts exactly the registered uplinks (real body, rule R12).',
              COMMON_NOTE + ' Not covered: the shell call site of build_reg1_for and "connected only on REG3" (shell unit), probing (RTT probes).',
              'deductive verification (Verus) of the extracted state machine against transition contracts', 'DESIGN.md 8 C07'),
    'C08': _t('Verus proves: the timed-out predicate is a function of (connected, last_received, timeout, establishment, grace) only - no stall/weak/loss field is an input; back-off delay in [5 s,120 s] '
              'for every failure count; an attempt is allowed only >= 1 s (initial) / >= 5 s (later) after the previous one and always once 120 s have passed (no terminal state); '
              'every reset returns the link to window 20000, zero in-flight, Registering; REG3 clean-up enters Warming with zero in-flight. REG3 restarts the back-off but never the 5 s retry timer; a soft reset (mark_for_recovery) cancels an outstanding RTT probe and clears the keepalive stamps. An empty reader packet or a packet of an unknown uplink changes nothing (unit drain); mark_for_recovery keeps the retry clock, the back-off and the establishment stamp.',
              COMMON_NOTE + ' Out of reach: "connected again within 30 s" and the housekeeping loop itself (liveness over the network).',
              'deductive verification (Verus) of extracted real functions', 'DESIGN.md 8 C08'),
    'C09': _t('Verus proves for every byte string (any length) and every link state: process_uplink_packet returns Ok, forwards exactly the datagram itself (unchanged) iff it has >= 2 bytes and is not REG_NGP/REG2/REG3/REG_ERR/SRTLA-ACK/keepalive, '
              'never forwards internal ones; every non-registration datagram stamps last_received with the clock value read; delivery proof changes only for a keepalive echo answered while a probe was outstanding (or an earned SRTLA ACK in the core); '
              'connected flips to true only on REG3; the ACK/NAK/SRTLA-ACK lists handed on are exactly the parsed lists; process_connection_events sends every forwarded datagram to the client once, in order, and nothing while no client is known. '
              'Panic freedom of the whole path (parsers, dispatcher, attribution) is a built-in obligation. Unit drain: every datagram dequeued from the reader channel (ghost FIFO model of the tokio receiver) is handled exactly once, in arrival order, on the link whose conn_id it carries; its parsed effects are handed unchanged to the event processor; empty or unknown-uplink datagrams change nothing. SRT ACK handling never touches the delivery-proof stamp. The REG2 id decode in the registration manager cannot panic on any length.',
              COMMON_NOTE + ' UdpSocket::send_to / try_send_to are stubs; delivery by the OS is not modelled.',
              'deductive verification (Verus) of extracted real functions against byte-level spec functions', 'DESIGN.md 8 C09'),
    'C10': _t('Verus proves: score == window / (in-flight + queued + 1) (saturating, integer division); the classic selector returns an eligible link of maximal score, the first such link, None only if no candidate scores >= 0; '
              'window rules exactly +29 (only when in-flight*1000 exceeds the window), +1 on every connected link once per SRTLA-acknowledged number, -100 per charged NAK, bounds 1000..60000; '
              'and in classic mode handle_srt_packet routes every packet kind (retransmit-flagged, inside a critical window) to the scheduler\'s choice.',
              COMMON_NOTE + ' A genuine defect found by this check (quality override applied in classic mode) was repaired in /repo (fix: commit 49c1b48). "No time-based recovery in classic" is a syntactic audit of the single call site.',
              'deductive verification (Verus): argmax-first postcondition with loop invariant, exact-delta window contracts, tagged routing assertion', 'DESIGN.md 8 C10'),
    'C11': _t('Verus proves on the real enhanced selector (any number of links): the result is always a scored candidate (eligible, connected, not over its cap while an unconstrained link exists); the score is exactly base x phase weight (0.8 warming / 1.0) x quality x soft cap x gate (0.02 for weak or loss-degraded while an unconstrained link exists, else 1.0); '
              'the previous link is left only if it was skipped or the winner is not below 1.10 x its score. Kani proves on the real functions, for every link state: quality multiplier in [0.35, 1.1x1.03], soft-cap factor in [0.1, 1], in-flight cap >= 1 and None iff no target. The in-flight cap uses the documented minimum RTT; a reload forgets the hysteresis anchor exactly when a link was removed (unit conns).',
              COMMON_NOTE + ' Not covered: "re-running selection on an unchanged state returns the same uplink" is only partially covered (the per-link updates are exact functions of the state; no two-run proof).',
              'deductive verification (Verus) with tagged assertions inside the loop + Kani complete harnesses for the float factors', 'DESIGN.md 8 C11'),
    'C12': _t('Verus proves for any number of links, both modes, every configuration: select_connection_idx and everything it calls (stall gate, pull and latch updates, quality cache refresh, both selectors) '
              'leave every field outside {stall flags/latches/counters, conn_timeout_ms, quality_cache} of every link unchanged (frame predicate generated from the struct definition, so new fields are in the frame by default), '
              'and with the guard off every flag and latch is cleared. Each pass of the gate writes only its own fields (clauses relative to the loop-entry snapshot); ACK / NAK processing never changes a phase or a conn_id (units events, drain).',
              COMMON_NOTE, 'deductive verification (Verus): generated field-wise frame predicates carried through every callee contract', 'DESIGN.md 8 C12'),
    'C13': _t('Verus proves the one-step contracts of the stall latch and the silence pull for all states and clock values: engages only with stale proof and (backlog or held pull), never without proof on record; '
              'releases only after proof stayed fresh and the run lasted >= 2x the effective window; stale proof resets the run; the run start is only ever 0 / unchanged / now; pull releases only when heard again or disconnected; '
              'effective window = clamp(4*sRTT,1000,ceiling) with ceiling winning below the floor; rising edges counted exactly. A newly created link starts without delivery proof or stall state.',
              COMMON_NOTE + ' Float->int conversion of the smoothed RTT is uninterpreted in Verus; Kani harness covers the formula bit-precisely when built.',
              'deductive verification (Verus) of extracted real functions against transition contracts', 'DESIGN.md 8 C13'),
    'C14': _t('Verus proves: a keepalive is due exactly when the link is connected and none was sent or the last one is >= 1000 ms old; keepalive_packet stamps the send time, carries it as the timestamp, its telemetry equals the link state, and arms an RTT probe only when none is outstanding; '
              'an RTT sample is taken only from an echo received while a probe is outstanding, only with a parsable timestamp and 0 < RTT <= 10000 ms, and every echo consumes the probe. Kani proves on the real code: the frame is 38 bytes, its first 10 bytes are the standard keepalive, '
              'it decodes back to the values it was built from, and the smoothed RTT is never negative (hence never NaN) for every filter state. A soft reset cancels the outstanding probe, so an echo of a keepalive sent before the reset yields no sample.',
              COMMON_NOTE + ' Out of reach: the cadence inside the real housekeeping loop (two housekeeping periods) and "never non-finite" (Kalman stability over unbounded histories).',
              'deductive verification (Verus) + Kani complete harnesses on the real builders/decoders', 'DESIGN.md 8 C14'),
    'C18': _t('Verus proves on the real dispatch_inner, dispatch (stdin) and dispatch_async (socket; async erased) over uninterpreted serde_json/string primitives: a blank line gets no response and changes nothing; an unparsable line gets exactly one response with code -32700, no result and a null id; '
              'a wrong version gets -32600 echoing the id (none for a notification); a request with an id gets exactly one response echoing that id with either a result or an error, never both, carrying exactly the verdict of handle_method; a notification gets none but handle_method has been applied to it. '
              'On the real handle_method / parse_mode (string match turned into an if-chain over a trusted str_eq, json! into a builder chain keeping keys and value expressions): unknown and subscription methods get -32601 and change nothing; missing or ill-typed parameters and unknown mode names get -32602 and change nothing; '
              'a successful set_mode / set_quality / set_stall_deselect / set_conn_timeout changes exactly that setting in the snapshot, set_conn_timeout stores and echoes clamp(ms,1000,60000); get_status changes nothing and reports exactly the current snapshot; get_stats changes nothing and can only fail with -32603; '
              'lemma: get_status after a successful set_conn_timeout shows the clamped value. The socket entry point satisfies the same envelope contract and the same handler verdict for every request except subscribe / unsubscribe / get_subscription_count on a connection with a subscription context. '
              'On the real DynamicConfig (shared atomics SEQUENTIALISED into plain cells): the timeout stored by new / from_cli / set_conn_timeout_ms is always clamp(ms,1000,60000), every snapshot shows 1000..60000, each setter is visible in the next snapshot and leaves the other settings alone; mode codec total and inverse. Panic freedom of dispatch_inner / dispatch / dispatch_async / handle_method / parse_mode is claimed and proved, including the panic-capable arguments (indexing, slicing, unwrap) of the error-message expressions that rule R2 otherwise drops.',
              COMMON_NOTE + ' Additional rule R20 (string-literal match -> if-chain, arm order kept). NOT covered: concurrent setters/readers (atomics sequentialised), serde_json itself (parsing, typed accessors, serialisation, Response::to_json), Display of SchedulingMode, the subscription handlers, control_socket.rs line framing.',
              'deductive verification (Verus) of the extracted real functions over uninterpreted JSON/string stubs; atomics sequentialised', 'DESIGN.md 8 C18'),
    'C19': _t('Verus proves on the real analyze_ip_reload_text (string functions lines/trim/is_empty/IpAddr::from_str uninterpreted but deterministic): the reload is refused iff no line parses; the applied list is exactly the parsable lines in file order; '
              'Empty is reported iff there is no non-blank line; the first invalid line number is the first non-blank unparsable line. On the real apply_connection_changes (its four iterator chains turned into cursor loops by rules R19a-d, closure texts verbatim; '
              'label format! = an uninterpreted function of host, port and address; HashSet<String>/HashSet<IpAddr> = ghost sets): the surviving links are exactly the links whose label is still listed, unchanged and in their old order, at the front of the list; '
              'the purge list is exactly the conn_ids of the unlisted links; their I/O handles are removed and their NAK-attribution records blanked, and nothing else is purged (survivors keep their I/O handle and records); '
              'the sticky routing choice is forgotten exactly when a link was removed; every appended link is for a listed address that had no link, and no address is used twice. On the real create_connections_from_ips / connect_uplink (socket calls stubbed): '
              'links are created in list order, each with the label reloads match on, and existing I/O entries are untouched. On SequenceTracker::remove_connection: exactly the records of the removed link are purged. Every listed address is attempted: an error on one address does not stop the rest.',
              COMMON_NOTE + ' Residual, stated in the contract rather than assumed away: connect_uplink draws a random 64-bit conn_id without a collision check, so the "untouched" clauses hold unless a new link drew the id of an existing one. '
              'NOT covered: sync_readers (reader tasks follow the link list), socket identity of survivors (ConnIo is opaque), "applied while packets are in flight" (single call only).',
              'deductive verification (Verus) of the extracted real functions over uninterpreted string / set / socket stubs', 'DESIGN.md 8 C19'),
    'C16': _t('Two back ends on the same real code. (1) Verus, unit cc: LinkCongestionState::tick, update_backoff_efficacy, pick_climb_mode, record_loss, observe_traffic, evict_expired, loss_permille, '
              'record_rtt and update_rtt_min are verified against contracts for ALL states, inputs and loss-window lengths (loop invariant, no bound): the next target is the documented function of '
              '(next state, previous state, climb mode, previous target, outlier-clamped measured rate) -- x850/1000 on a loss back-off but never below the delivered rate nor above the old target, x750/1000 only '
              'on ENTRY to a drain, growth by the 20/60/40 permille step of the climb mode (<= 6 %) capped at twice the measured rate and none without measured traffic, final clamp to [100 kbit/s, 200 Mbit/s], '
              'floor + Bootstrap until an RTT sample exists; back-off only with window loss > 5 permille while loaded and not ruled out; fast-recovery budget; the loss latch moves only through update_loss_ewma; '
              'each helper writes only its own fields (frames), a non-positive / non-finite RTT sample changes nothing, every evicted loss sample leaves with exactly its own contribution. Floats are uninterpreted '
              'there: the STRUCTURE (which constants, which operations, which operands) is what is proved. Unit ccglue: tick_all feeds each controller its own link\'s signals and drops vanished ones. '
              '(2) Kani, complete loop-free harnesses over every wf pre-state: the IEEE-level facts -- range, floor until RTT, lowered only in BackingOff / on Drain entry, never raised by a back-off nor cut below the delivered '
              'rate, loss latch 0.55 / 4 s / 0.25 hysteresis and frame, default state is wf. One known finding (re-seed at the floor) is isolated in its own obligation.',
              'Trusted: Kani+CBMC, exp model (finite, >=0, <=1 for x<=0), update_loss_ewma as a stub in unit cc and inside the Kani tick harnesses (its frame + hysteresis proved by its own harness), '
              'axiom: exec == on f64 returns eq_spec; uninterpreted float operations in Verus (that x*850/1000 IS 0.85x up to rounding is not proved: the three exact-factor Kani harnesses do not terminate). '
              'The seeding rule is specified as the code has it (target on the floor => seed), which includes the recorded known finding; the Kani obligation reports it.',
              'deductive verification (Verus) of the extracted controller against a structural spec function + Kani complete harnesses for the float facts', 'DESIGN.md 8 C16'),
    'C17': _t('Verus proves on the real 200-line classify (four loops, four hash maps, any number of links, distinct ids): never weak while disconnected; under 100 kbit/s total (float sum as the code adds it) or with no connected link '
              'everything is Bypassed/not weak and all history cleared; a delay verdict needs the streak to have been >= 1 before and >= 2 after; streak/probation follow the exact step relation (<= 14 stored, 15th verdict arms exactly 3 not-weak ticks); '
              'enter threshold 250/n, leave threshold 750/n, LowShare only below the threshold, leaving only at >= 750/n. Verus (unit ccglue, the controller as an opaque type): LinkCcController::tick_all feeds each controller the link\'s own smoothed RTT and only when it is positive, drops the controllers of links that disappeared, and leaves every listed link with a controller and a snapshot.',
              COMMON_NOTE + ' Floats (bitrate shares, RTT) are uninterpreted: what total_bps numerically is stays unproved.',
              'deductive verification (Verus) of the extracted real function with loop invariants over four maps', 'DESIGN.md 8 C17'),

    'C15': dict(
        level='Every decoder of srtla-protocol is verified by Verus against a spec function of the input bytes for ALL byte strings of ANY length (no bound): '
              'panic freedom (index / overflow obligations), exact layouts (type at 0..2, SRT ACK number at 16..20, data = clear top bit, retransmit flag bit 2 of byte 4, '
              'SRTLA ACK = 4-byte header + big-endian u32 list, keepalive timestamp / extended telemetry offsets), the NAK loss list as a recursive spec (ranges by top bit, '
              'expansion stops at 1000 entries) and the entry bound 1000 + (len-4)/4. Builders and builder/decoder round trips are decided by Kani harnesses on the compiled crate.',
        note='Trusted: the extractor and its rewrite rules (text of the bodies is copied from /repo each run), SmallVec treated as Vec, '
             'u16/u32/i32::from_be_bytes specified as shift-or of the bytes (validated by a Kani harness), Verus + Z3.',
        technique='deductive verification (Verus) of the extracted real decoders against byte-level spec functions',
        design_ref='DESIGN.md 8 C15',
    ),
}


# additions of rounds 4-5 (appended to the level text by manifest_gen)
EXTRA = {
    'C01': ' The no-blackout clauses of the selectors (C03) are obligations of C01 too: a datagram dropped for lack of a link is a lost datagram.',
    'C03': ' The route call site: a packet the scheduler placed is never dropped by the best-path override; the session-established flag (which decides whether the scheduler runs at all) is never cleared by a registration handler.',
    'C05': ' A reload purges the NAK records of exactly the removed links (unit conns); every reset empties the packet log; a fresh tracker remembers nothing.',
    'C08': ' restart_reader_for aborts the replaced reader task (a dropped handle detaches: explicit drop obligation) and never overwrites a live handle; every link whose retry is due leaves the housekeeping tick with clean accounting whatever the socket re-open did; RttTracker / Kalman / Ewma / BitrateTracker reset are verified bodies; the runtime timeout setter stores the clamped value.',
    'C09': ' The reader task (body of the tokio::spawn in spawn_reader, verified as if run in place): every non-empty datagram of a received batch is relayed unchanged, in order, under the id of its link. Every return of handle_uplink_packet (also one a change adds) satisfies: a non-empty datagram of a known uplink has reached the uplink parser. REG3 handling leaves the delivery-proof stamp, the RTT tracker and the keepalive clock alone.',
    'C11': ' in_flight_cap_packets, the quality multiplier and the RTT bonus are verified against explicit spec functions over uninterpreted float operations (the documented formulas: which constants, operations and operands); the dispatcher hands the previous choice to the enhanced selector unchanged; every routed packet becomes the hysteresis anchor.',
    'C12': ' lemma_quality_ignores_stall_history: the quality factor is a function of age, NAK history and smoothed RTT only, so two links differing only in stall history score the same (proved from the spec function the real body is verified against); lemma_soft_cap_ignores_stall_history: the same for the soft-cap factor (a function of CC target and measured bitrate only, real body verified against spec_soft_cap); with the guard off no flag or latch is left when a packet is routed.',
    'C14': ' REG3 handling and reset_for_reconnect leave the keepalive cadence clock alone; RttTracker::reset (verified body) cancels the outstanding probe.',
    'C17': ' The standing-queue signal the classifier reads (RttTracker::queue_building_suspected) is a verified body against spec_queue_building: false without an RTT baseline, else gradient > max(3 x MASD, 5 % of min RTT). The throughput measurement restarts from zero on every reconnect (BitrateTracker::reset); REG_ERR disconnects the link.',
    'C18': ' ErrorObject::new with a char-boundary panic model for String::truncate / split_off; the serde derive attributes of Request are audited (serde itself is trusted, its configuration is not).',
    'C19': ' Resets, reconnects and the constructor keep the identity a reload matches on (id, label, local address); the SIGHUP entry point analyses the whole file.',
}
