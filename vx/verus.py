"""Run Verus on one generated file and turn its output into obligation verdicts."""
import json
import os
import re
import subprocess
import time

SEMANTIC = (
    ('postcondition not satisfied', 'post'),
    ('precondition not satisfied', 'pre'),
    ('assertion failed', 'assert'),
    ('invariant not satisfied', 'inv'),
    ('possible arithmetic underflow/overflow', 'overflow'),
    ('possible division by zero', 'div0'),
    ('index out of bounds', 'bounds'),
    ('index in bounds', 'bounds'),
    ('precondition not met', 'pre'),
    ('slice', 'bounds'),
    ('possible bit shift underflow/overflow', 'overflow'),
    ('decreases not satisfied', 'decreases'),
    ('failed to prove termination', 'decreases'),
    ('recommendation not met', 'recommends'),
    ('unwrap', 'pre'),
    ('loop invariant not preserved', 'inv'),
    ('could not prove termination', 'decreases'),
    ('safe api', 'other'),
)
RESOURCE = (r'\bresource limit\b', r'\brlimit\b', r'\btimed out\b', r'\bsolver timeout\b', r'\bquery timeout\b')


def classify(msg):
    low = msg.lower()
    for k in RESOURCE:
        if re.search(k, low):
            return 'resource'
    for pat, kind in SEMANTIC:
        if pat in low:
            return kind
    return None


def run(path, rlimit=None, seed=None, extra=(), timeout=1800, threads=None):
    cmd = ['verus', '--edition=2024', path, '--error-format=json', '--output-json', '--time']
    if '--multiple-errors' not in extra:
        cmd += ['--multiple-errors', '8']
    if rlimit:
        cmd += ['--rlimit', str(rlimit)]
    if seed is not None:
        cmd += ['--smt-option', 'smt.random_seed=%d' % seed]
    if threads:
        cmd += ['--num-threads', str(threads)]
    cmd += list(extra)
    t0 = time.time()
    logdir = path + '.verus-log'
    try:
        p = subprocess.run(cmd, capture_output=True, text=True, timeout=timeout, cwd=os.path.dirname(path))
        out, err, rc = p.stdout, p.stderr, p.returncode
    except subprocess.TimeoutExpired as e:
        return dict(cmd=' '.join(cmd), wall_s=time.time() - t0, timeout=True, front_end_error=True, front_end_msgs=['verus timed out'],
                    diags=[], verified=0, errors=0, functions=[], raw_err='')
    wall = time.time() - t0
    summary = {}
    try:
        summary = json.loads(out[out.index('{'):]) if '{' in out else {}
    except Exception:
        summary = {}
    vr = summary.get('verification-results', {})
    diags = []
    fe = []
    notes = []
    for line in err.split('\n'):
        line = line.strip()
        if not line.startswith('{'):
            if line and ('panicked' in line or 'internal error' in line.lower()):
                fe.append(line)
            continue
        try:
            d = json.loads(line)
        except Exception:
            continue
        lvl = d.get('level')
        msg = d.get('message', '')
        if lvl == 'error':
            if msg.startswith('aborting due to'):
                continue
            # a rustc diagnostic (it carries an error code: E0428, E0425, ...) is never a verification verdict, whatever words its message
            # contains (identifiers such as CONN_TIMEOUT_MS once matched the resource-limit pattern): front-end error
            kind = None if d.get('code') else classify(msg)
            spans = [dict(l0=s['line_start'], l1=s['line_end'], c0=s['column_start'], primary=s['is_primary'], label=s.get('label'), file=s.get('file_name', ''),
                          text=(s.get('text') or [{}])[0].get('text', '').strip() if s.get('text') else '')
                     for s in d.get('spans', [])]
            if kind is None:
                fe.append(msg + ' @ ' + ','.join(str(s['l0']) for s in spans))
            else:
                diags.append(dict(kind=kind, msg=msg, spans=spans, rendered=d.get('rendered', '')))
        elif lvl in ('warning', 'note'):
            if 'resource limit' in msg.lower() or 'rlimit' in msg.lower():
                diags.append(dict(kind='resource', msg=msg, spans=[dict(l0=s['line_start'], l1=s['line_end'], c0=s['column_start'], primary=s['is_primary'], label=s.get('label'), text='') for s in d.get('spans', [])], rendered=d.get('rendered', '')))
    funcs = []
    try:
        for mod in summary['times-ms']['smt']['smt-run-module-times']:
            for f in mod.get('function-breakdown', []):
                funcs.append(dict(function=f['function'], success=f['success'], time_us=f['time-micros'], rlimit=f['rlimit']))
    except Exception:
        pass
    front_end_error = bool(fe) or (not vr) or vr.get('encountered-vir-error', False) or (rc != 0 and not diags and not vr.get('success', False)) \
        or (vr.get('verified', 0) == 0 and vr.get('errors', 0) == 0)     # nothing was checked at all: never a pass
    if front_end_error and not fe:
        fe.append('verus reported no verification results (verified=%s errors=%s rc=%s)' % (vr.get('verified'), vr.get('errors'), rc))
    return dict(cmd=' '.join(cmd), wall_s=wall, rc=rc, front_end_error=front_end_error, front_end_msgs=fe, diags=diags,
                verified=vr.get('verified', 0), errors=vr.get('errors', 0), success=vr.get('success', False),
                functions=funcs, smt_total_ms=summary.get('times-ms', {}).get('smt', {}).get('total'),
                total_ms=summary.get('times-ms', {}).get('total'), raw_err=err if (fe or not vr) else '')


_LINES = {}


def _line(path, n):
    """text of line n of a generated file (a `requires` line marked `// @panic-model` is the panic condition of a std function
    modelled by a stub -- copy_from_slice, slice range -- so its failure is a possible panic, not a proof-scaffold matter)"""
    if path not in _LINES:
        try:
            _LINES[path] = open(path).read().split('\n')
        except OSError:
            _LINES[path] = []
    ls = _LINES[path]
    return ls[n - 1] if 0 < n <= len(ls) else ''


def attribute(res, meta):
    """attach tags + enclosing function to every diagnostic, using the generator's line tables."""
    tags = {int(k): v for k, v in meta['tags'].items()}
    fns = meta['functions']

    def fn_of(line):
        best = None
        for (name, a, b) in fns:
            if a <= line <= b and (best is None or a >= best[1]):
                best = (name, a, b)
        if best is None:
            # range table missed it (an unusual token sequence can end a range early): the closest function that starts above the line
            prev = [(a, name) for (name, a, b) in fns if a <= line]
            return max(prev)[1] if prev else None
        return best[0]
    for d in res['diags']:
        tg = []
        fn = None
        for s in d['spans']:
            lab = (s.get('label') or '')
            if lab.startswith('at the end of the function body') or lab.startswith('at this exit') or lab.startswith('at this loop exit') \
                    or lab.startswith('at this continue') or lab.startswith('at this break') or (s['l1'] - s['l0']) > 12:
                continue     # location of the failing path, not of the failing clause
            for ln in range(s['l0'], s['l1'] + 1):
                for t in tags.get(ln, []):
                    if t not in tg:
                        tg.append(t)
            if s['primary'] or fn is None:
                f = fn_of(s['l0'])
                if f:
                    fn = f
        # the function the failure occurred in = the one containing the non-clause span if any
        for s in d['spans']:
            if not s['primary'] and d['kind'] == 'post':
                f = fn_of(s['l0'])
                if f:
                    fn = f
        d['tags'] = tg
        d['function'] = fn
        # a failed precondition of one of OUR contracted functions (clause located in the generated file) is a proof-scaffold
        # matter; a failed precondition of a std/vstd function (unwrap, index, slice range) is a possible panic
        d['user_pre'] = d['kind'] == 'pre' and any((s.get('label') or '').startswith('failed precondition') and os.path.basename(s.get('file', '')) == os.path.basename(meta['file'])
                                                     and '@panic-model' not in _line(meta['file'], s['l0'])
                                                     for s in d['spans'])
    return res
