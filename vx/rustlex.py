"""Small Rust lexer utilities: comment/string aware bracket matching and item
enumeration.  Used by the extractor (vx/gen.py).  Purely syntactic."""
import re


class LexError(Exception):
    pass


def skip_string(src, i):
    # src[i] == '"'
    i += 1
    n = len(src)
    while i < n and src[i] != '"':
        if src[i] == '\\':
            i += 1
        i += 1
    return i + 1


def skip_raw_string(src, i):
    m = re.match(r'b?r(#*)"', src[i:])
    hashes = m.group(1)
    j = src.index('"' + hashes, i + len(m.group(0)))
    return j + 1 + len(hashes)


def skip_char_or_lifetime(src, i):
    m = re.match(r"'(\\.[^']*|[^'\\])'", src[i:])
    if m:
        return i + len(m.group(0))
    return i + 1


def _is_raw_string_start(src, i):
    if src[i] not in 'rb':
        return False
    if i > 0 and (src[i - 1].isalnum() or src[i - 1] == '_'):
        return False
    return re.match(r'b?r#*"', src[i:i + 8]) is not None


def next_token_pos(src, i, n=None):
    """advance over one lexical unit starting at i that must be skipped as opaque
    (comment/string/char); returns new index or None if src[i] is ordinary."""
    if n is None:
        n = len(src)
    if src.startswith('//', i):
        j = src.find('\n', i)
        return n if j < 0 else j
    if src.startswith('/*', i):
        # nested block comments
        depth = 1
        j = i + 2
        while j < n and depth > 0:
            if src.startswith('/*', j):
                depth += 1
                j += 2
            elif src.startswith('*/', j):
                depth -= 1
                j += 2
            else:
                j += 1
        return j
    c = src[i]
    if c == '"':
        return skip_string(src, i)
    if c == 'b' and src.startswith('b"', i) and not (i > 0 and (src[i - 1].isalnum() or src[i - 1] == '_')):
        return skip_string(src, i + 1)
    if _is_raw_string_start(src, i):
        return skip_raw_string(src, i)
    if c == "'":
        return skip_char_or_lifetime(src, i)
    return None


def match_bracket(src, i, o=None, c=None):
    """index of the bracket closing the one at src[i]."""
    if o is None:
        o = src[i]
        c = {'(': ')', '[': ']', '{': '}', '<': '>'}[o]
    if src[i] != o:
        raise LexError('match_bracket: expected %r at %d, got %r' % (o, i, src[max(0, i - 20):i + 20]))
    depth = 0
    n = len(src)
    while i < n:
        j = next_token_pos(src, i, n)
        if j is not None:
            i = j
            continue
        ch = src[i]
        if ch == o:
            depth += 1
        elif ch == c:
            depth -= 1
            if depth == 0:
                return i
        i += 1
    raise LexError('unbalanced %s' % o)


def skip_ws_comments(src, i, n):
    while i < n:
        if src[i].isspace():
            i += 1
        elif src.startswith('//', i):
            j = src.find('\n', i)
            i = n if j < 0 else j + 1
        elif src.startswith('/*', i):
            i = next_token_pos(src, i, n)
        else:
            break
    return i


_ITEM_RE = re.compile(
    r'(?:pub(?:\([^)]*\))?\s+)?(?:open\s+|closed\s+|uninterp\s+|broadcast\s+)*(?:default\s+)?(?:const\s+|async\s+|unsafe\s+|spec\s+|proof\s+|exec\s+)*'
    r'(fn|struct|enum|impl|mod|const|static|type|use|trait|macro_rules!|broadcast\s+use|broadcast\s+group)\b\s*([^\s{(;<:]*)')


def scan_items(src, start=0, end=None):
    """list of dicts(kind,name,start,sig,body,end) for the items in src[start:end].
    start = first char incl. attributes/doc comments; sig = first char after attributes;
    body = index of '{' opening the body (None for ';' items); end = one past the end."""
    n = len(src) if end is None else end
    i = start
    items = []
    while True:
        i = skip_ws_comments(src, i, n)
        if i >= n:
            break
        item_start = i
        j = i
        while True:
            j = skip_ws_comments(src, j, n)
            if src.startswith('#[', j) or src.startswith('#![', j):
                k = match_bracket(src, src.index('[', j), '[', ']')
                j = k + 1
            else:
                break
        k = j
        body_open = None
        while k < n:
            t = next_token_pos(src, k, n)
            if t is not None:
                k = t
                continue
            c = src[k]
            if c in '([':
                k = match_bracket(src, k) + 1
            elif c == '{':
                body_open = k
                k = match_bracket(src, k, '{', '}') + 1
                break
            elif c == ';':
                k += 1
                break
            else:
                k += 1
        text = src[j:k]
        m = _ITEM_RE.match(text)
        kind, name = (m.group(1), m.group(2)) if m else ('?', '?')
        kind = re.sub(r'\s+', ' ', kind)
        if kind == 'impl':
            mm = re.match(r'impl(?:\s*<[^>]*>)?\s+(?:([\w:<>, ]+?)\s+for\s+)?([\w:]+)', text)
            name = ((mm.group(1) + ' for ') if mm and mm.group(1) else '') + (mm.group(2) if mm else '?')
        items.append(dict(kind=kind, name=name, start=item_start, sig=j, body=body_open, end=k))
        i = k
    return items


def strip_comments(text, keep_ob=False):
    """remove // and /* */ comments (string/char aware).  With keep_ob, comments
    of the form `// @ob ...` survive (overlay text only)."""
    out = []
    i = 0
    n = len(text)
    while i < n:
        if text.startswith('//', i):
            j = text.find('\n', i)
            j = n if j < 0 else j
            if keep_ob and re.match(r'//\s*@ob\b', text[i:j]):
                out.append(text[i:j])
            i = j
        elif text.startswith('/*', i):
            i = next_token_pos(text, i, n)
        else:
            j = next_token_pos(text, i, n)
            if j is not None:
                out.append(text[i:j])
                i = j
            else:
                out.append(text[i])
                i += 1
    s = ''.join(out)
    s = re.sub(r'[ \t]+\n', '\n', s)
    return re.sub(r'\n\s*\n+', '\n', s)


def find_top_level(text, needle, start=0):
    """first occurrence of needle at or after start that is not inside a comment/string."""
    i = start
    n = len(text)
    while i < n:
        j = next_token_pos(text, i, n)
        if j is not None:
            i = j
            continue
        if text.startswith(needle, i):
            return i
        i += 1
    return -1


def split_top(s, sep):
    """split s on sep at bracket depth 0 (comment/string aware)."""
    out = []
    d = 0
    cur_start = 0
    i = 0
    n = len(s)
    while i < n:
        j = next_token_pos(s, i, n)
        if j is not None:
            i = j
            continue
        c = s[i]
        if c in '([{':
            d += 1
        elif c in ')]}':
            d -= 1
        if d == 0 and s.startswith(sep, i):
            out.append(s[cur_start:i])
            i += len(sep)
            cur_start = i
            continue
        i += 1
    out.append(s[cur_start:])
    return out
