"""Rewrite rules R0..R16 of DESIGN.md §3.2.  Every rule is a pure text -> (text, count)
function; the generator records the counts per extracted item."""
import re
from rustlex import (match_bracket, strip_comments, split_top, next_token_pos, LexError)


class RuleError(Exception):
    """an expected pattern is absent / a rule cannot be applied soundly -> exit 2"""


LOG_MACROS = ('debug', 'info', 'warn', 'trace', 'error')
_LOG_PAT = re.compile(r'\b(?:tracing::)?(' + '|'.join(LOG_MACROS) + r')!\s*\(')


def _risky_args(inner):
    """positional arguments of a log / format macro that can PANIC when evaluated: the ones that index or slice (`x[..]`) or unwrap.
    (The macro evaluates its arguments; dropping the macro must not drop a panic.  Plain paths, method calls and literals cannot panic
    and are dropped with the text.)"""
    from rustlex import split_top
    parts = [a.strip() for a in split_top(inner, ',')]
    out = []
    seen_fmt = False
    for a in parts:
        if not a:
            continue
        if not seen_fmt:
            if a.startswith('"') or a.startswith('r"') or a.startswith('r#"'):
                seen_fmt = True
            continue      # tracing fields / target before the format string
        if re.match(r'^\w+\s*=[^=]', a) or a[0] in '%?':
            continue
        if '[' in a or '.unwrap()' in a or '.expect(' in a:
            out.append(a)
    return out


def r1_strip_log_macros(text):
    out = []
    i = 0
    cnt = 0
    while True:
        m = _LOG_PAT.search(text, i)
        if not m:
            out.append(text[i:])
            break
        out.append(text[i:m.start()])
        op = m.end() - 1
        cp = match_bracket(text, op, '(', ')')
        risky = _risky_args(text[op + 1:cp])
        keep = ('{ let _ = (' + ''.join('&(%s), ' % a for a in risky) + '); }') if risky else ''
        j = cp + 1
        k = j
        while k < len(text) and text[k] in ' \t':
            k += 1
        if k < len(text) and text[k] == ';':
            j = k + 1
            out.append(keep)
        else:
            out.append(keep or '()')
        cnt += 1
        i = j
    return ''.join(out), cnt


def r2_format(text):
    """format!(...) -> String::new();  X.to_string() on literals is left alone."""
    cnt = 0
    pat = re.compile(r'\bformat!\s*\(')
    while True:
        m = pat.search(text)
        if not m:
            break
        j = match_bracket(text, m.end() - 1, '(', ')')
        risky = _risky_args(text[m.end():j])
        rep = ('{ let _ = (' + ''.join('&(%s), ' % a for a in risky) + '); String::new() }') if risky else 'String::new()'
        text = text[:m.start()] + rep + text[j + 1:]
        cnt += 1
    return text, cnt


def r3_strip_attrs(text):
    n = 0
    for pat in (r'#\[inline(\([a-z]*\))?\]\s*', r'#\[cold\]\s*', r'#\[allow\([^\]]*\)\]\s*',
                r'#\[must_use\]\s*', r'#\[cfg_attr\([^\]]*\)\]\s*', r'#\[doc[^\]]*\]\s*'):
        text, k = re.subn(pat, '', text)
        n += k

    k = 0
    return text, n + k


def _cfg_eval(expr, features, test):
    expr = expr.strip()

    def split_args(s):
        out = []
        d = 0
        cur = ''
        for ch in s:
            if ch == '(':
                d += 1
            if ch == ')':
                d -= 1
            if ch == ',' and d == 0:
                out.append(cur)
                cur = ''
            else:
                cur += ch
        if cur.strip():
            out.append(cur)
        return out
    if expr.startswith('any('):
        return any(_cfg_eval(e, features, test) for e in split_args(expr[4:-1]))
    if expr.startswith('all('):
        return all(_cfg_eval(e, features, test) for e in split_args(expr[4:-1]))
    if expr.startswith('not('):
        return not _cfg_eval(expr[4:-1], features, test)
    if expr == 'test':
        return test
    if expr == 'unix':
        return True
    if expr == 'windows':
        return False
    if expr == 'miri':
        return False
    if expr == 'unix':
        return True
    if expr == 'windows':
        return False
    m = re.match(r'feature\s*=\s*"([^"]+)"', expr)
    if m:
        return m.group(1) in features
    m = re.match(r'target_os\s*=\s*"([^"]+)"', expr)
    if m:
        return m.group(1) == 'linux'
    m = re.match(r'target_vendor\s*=\s*"([^"]+)"', expr)
    if m:
        return m.group(1) == 'unknown'
    raise RuleError('cfg predicate not understood: ' + expr)


def r4_resolve_cfg(text, features=(), test=False):
    """line-oriented: a `#[cfg(..)]` line guards the following attribute lines and
    ONE field / statement line (struct fields in this code base).  Items guarded by
    cfg are never extracted by name, so only fields need handling."""
    lines = text.split('\n')
    out = []
    cnt = 0
    i = 0
    while i < len(lines):
        ln = lines[i]
        m = re.match(r'\s*#\[cfg\((.*)\)\]\s*$', ln)
        if m:
            keep = _cfg_eval(m.group(1), features, test)
            j = i + 1
            while j < len(lines) and lines[j].strip().startswith('#['):
                j += 1
            # guarded thing: one line if it ends with ',' or ';', else a braced block
            if j < len(lines):
                g = lines[j]
                if g.rstrip().endswith((',', ';')):
                    if keep:
                        out.extend(lines[i + 1:j + 1])
                    i = j + 1
                    cnt += 1
                    continue
                if keep and not any(l.strip() for l in lines[:i]):
                    # the cfg is the extracted item's own leading attribute and holds on the verified target (linux): drop the line
                    i += 1
                    cnt += 1
                    continue
                raise RuleError('cfg guards a multi-line construct: ' + g.strip()[:60])
        out.append(ln)
        i += 1
    return '\n'.join(out), cnt


def r5_vis(text):
    text, n = re.subn(r'\bpub\((crate|super|self|in [\w:]+)\)', 'pub', text)
    return text, n


def r5_pub_fields(struct_text):
    """make every named field of a struct `pub`."""
    ob = struct_text.find('{')
    if ob < 0:
        return struct_text, 0
    head, body = struct_text[:ob + 1], struct_text[ob + 1:]
    body, n = re.subn(r'(?m)^(\s*)(?!pub\b)(\w+)\s*:', r'\1pub \2:', body)
    if not re.match(r'\s*(#\[[^\]]*\]\s*)*pub\b', head):
        head = re.sub(r'\b(struct|enum)\b', r'pub \1', head, count=1)
    return head + body, n


def r5_pub_item(text):
    """private fn/const/type/enum -> pub."""
    m = re.match(r'((?:\s*#\[[^\]]*\])*\s*)(?!pub\b)((?:const\s+|async\s+|unsafe\s+)*(?:fn|const|static|type|enum|struct)\b)', text)
    if m:
        return text[:m.end(1)] + 'pub ' + text[m.end(1):], 1
    return text, 0


def r6_types(text):
    n = 0
    for _ in range(4):
        text, k = re.subn(r'\bSmallVec<\s*((?:[^<>,]|<[^<>]*>)+?)\s*,\s*[\w:]+\s*>', r'Vec<\1>', text)
        n += k
        if not k:
            break
    text, k = re.subn(r'\bSmallVec::new\(\)', 'Vec::new()', text)
    n += k
    text, k = re.subn(r'\bSmallVec::from_slice_copy\(', 'vec_from_slice(', text)
    n += k
    text, k = re.subn(r'\bSmallVec::from_vec\(', 'vec_from_vec(', text)
    n += k
    text, k = re.subn(r'\bFxHashMap<', 'HashMap<', text)
    n += k
    text, k = re.subn(r'\bFxHashMap::with_capacity_and_hasher\(\s*([^,()]+),\s*Default::default\(\)\s*\)', r'HashMap::with_capacity(\1)', text)
    n += k
    text, k = re.subn(r'\bFxHashMap::default\(\)', 'HashMap::new()', text)
    n += k
    return text, n


_LOOP_ID = [0]


def r7_cursor_loops(text):
    """for (i, c) in XS.iter().enumerate() { / for c in XS.iter() { / .iter_mut() /
    for c in XS {  (XS a plain identifier path)  ->  cursor while-loop."""
    cnt = 0

    def mk(ind, idx, var, xs, mutk, deref_pat=None, cursor=None, bound=None):
        nonlocal cnt
        cnt += 1
        cur = cursor or f'{var}_nx'
        b = '&mut ' if mutk == 'iter_mut' else '&'
        ix = idx if idx else f'{var}_ix'
        bind = f'let {var} = {b}{xs}[{ix}];' if not deref_pat else f'let {var} = {xs}[{ix}];'
        # iter_mut: a ghost snapshot of the whole sequence taken before the element is borrowed (proof overlays name it `<var>_all`)
        snap = f'let ghost {var}_all = {xs}@;\n{ind}    ' if mutk == 'iter_mut' else ''
        # ... and one taken at loop entry (`<var>_entry`): loop clauses are written relative to it, not to the function entry
        entry = f'{ind}let ghost {var}_entry = {xs}@;\n' if mutk == 'iter_mut' else ''
        return (f'{entry}{ind}let mut {cur}: usize = 0;\n{ind}while {cur} < {bound or (xs + ".len()")}\n{ind}    /*@LOOPSPEC*/\n{ind}{{\n'
                f'{ind}    let {ix} = {cur}; {cur} += 1;\n{ind}    {snap}{bind}')

    def repl_enum(m):
        return mk(m.group(1), m.group(2), m.group(3), m.group(4), m.group(5), cursor=m.group(2) + '_nx')
    text = re.sub(r'(?m)^(\s*)for \((\w+), (\w+)\) in ([\w\.]+)\.(iter|iter_mut)\(\)\.enumerate\(\) \{', repl_enum, text)

    def repl_enum_deref(m):
        return mk(m.group(1), m.group(2), m.group(3), m.group(4), 'iter', deref_pat=True, cursor=m.group(2) + '_nx')
    text = re.sub(r'(?m)^(\s*)for \((\w+), &(\w+)\) in ([\w\.]+)\.iter\(\)\.enumerate\(\) \{', repl_enum_deref, text)

    def repl_filter(m):
        # for c in xs.iter[_mut]().filter(|p| PRED) {   ->   cursor loop whose body starts with `if !(PRED) { continue; }`
        ind, var, xs, mutk, par, pred = m.group(1), m.group(2), m.group(3), m.group(4), m.group(5), m.group(6)
        if par != var:
            pred = re.sub(r'\b%s\b' % re.escape(par), var, pred)
        return mk(ind, None, var, xs, mutk) + f'\n{ind}    if !({pred}) {{ continue; }}'
    text = re.sub(r'(?m)^(\s*)for (\w+) in ([\w\.]+)\.(iter|iter_mut)\(\)\.filter\(\|&?(\w+)\| (.+)\) \{$', repl_filter, text)

    def repl_copy(m):
        return mk(m.group(1), None, m.group(2), m.group(3), 'iter', deref_pat=True)
    text = re.sub(r'(?m)^(\s*)for &(\w+) in ([\w\.]+)\.iter\(\) \{', repl_copy, text)

    def repl_prefix(m):
        # for v in XS[..N].iter[_mut]() {  ->  cursor loop over the first N elements (indexing keeps the bounds obligation the slice had)
        return mk(m.group(1), None, m.group(2), m.group(3), m.group(5), bound='(' + m.group(4).strip() + ')')
    text = re.sub(r'(?m)^(\s*)for (\w+) in ([\w\.]+)\[\.\.([^\]\n]+)\]\.(iter|iter_mut)\(\) \{', repl_prefix, text)

    def repl_plain(m):
        return mk(m.group(1), None, m.group(2), m.group(3), m.group(4))
    text = re.sub(r'(?m)^(\s*)for (\w+) in ([\w\.]+)\.(iter|iter_mut)\(\) \{', repl_plain, text)

    def repl_slice(m):
        mutk = 'iter_mut' if m.group(3) == '&mut ' else 'iter'
        return mk(m.group(1), None, m.group(2), m.group(4), mutk)
    text = re.sub(r'(?m)^(\s*)for (\w+) in (&mut |&)([\w\.]+) \{', repl_slice, text)

    def repl_bare(m):
        return mk(m.group(1), None, m.group(2), m.group(3), 'iter')
    # `for c in xs {` with xs a plain identifier: in the extracted code base always a `&[T]` parameter
    text = re.sub(r'(?m)^(\s*)for (\w+) in (\w+) \{', repl_bare, text)
    return text, cnt


def r7_tuple_loops(text):
    """for (a, b, c) in &XS {  ->  cursor loop binding references to the tuple fields."""
    cnt = 0

    def repl(m):
        nonlocal cnt
        cnt += 1
        ind, names, xs = m.group(1), [x.strip() for x in m.group(2).split(',')], m.group(3)
        cur = f'{xs.replace(".", "_")}_nx'
        ix = f'{xs.replace(".", "_")}_ix'
        binds = ' '.join(f'let {nm} = &{xs}[{ix}].{k};' for k, nm in enumerate(names) if nm != '_')
        return (f'{ind}let mut {cur}: usize = 0;\n{ind}while {cur} < {xs}.len()\n{ind}    /*@LOOPSPEC*/\n{ind}{{\n'
                f'{ind}    let {ix} = {cur}; {cur} += 1;\n{ind}    {binds}')
    text = re.sub(r'(?m)^(\s*)for \(([\w, ]+)\) in &([\w\.]+) \{', repl, text)
    return text, cnt


def r8_range_inclusive(text):
    """for s in (A)..=B {  ->  i64 cursor loop."""
    cnt = 0
    pat = re.compile(r'(?m)^(\s*)for (\w+) in (.+?)\.\.=(.+?) \{$')

    def repl(m):
        nonlocal cnt
        cnt += 1
        ind, v, a, b = m.group(1), m.group(2), m.group(3), m.group(4)
        return (f'{ind}let mut {v}_nx: i64 = ({a}) as i64;\n{ind}let {v}_end: i64 = ({b}) as i64;\n'
                f'{ind}while {v}_nx <= {v}_end\n{ind}    /*@LOOPSPEC*/\n{ind}{{\n'
                f'{ind}    let {v} = {v}_nx as i32; {v}_nx += 1;')
    text = pat.sub(repl, text)
    return text, cnt


def r9_let_chains(text):
    """if A && let P = E && B { body }  (no else)  ->  nested ifs."""
    cnt = 0
    i = 0
    pat = re.compile(r'\bif\s')
    while True:
        m = pat.search(text, i)
        if not m:
            break
        k = m.end()
        d = 0
        n = len(text)
        while k < n:
            t = next_token_pos(text, k, n)
            if t is not None:
                k = t
                continue
            c = text[k]
            if c in '([':
                d += 1
            elif c in ')]':
                d -= 1
            elif c == '{' and d == 0:
                break
            k += 1
        cond = text[m.end():k]
        segs = [s.strip() for s in split_top(cond, '&&')]
        has_let = any(re.match(r'let\s', s) for s in segs)
        if not has_let or len(segs) == 1:
            i = m.end()
            continue
        close = match_bracket(text, k, '{', '}')
        after = text[close + 1:close + 20].lstrip()
        if after.startswith('else'):
            raise RuleError('R9: let-chain with else branch')
        groups = []
        cur = []
        for s in segs:
            if re.match(r'let\s', s):
                if cur:
                    groups.append(' && '.join(cur))
                    cur = []
                groups.append(s)
            else:
                cur.append(s)
        if cur:
            groups.append(' && '.join(cur))
        head = ' { '.join('if ' + g for g in groups)
        new = head + ' ' + text[k:close + 1] + ' }' * (len(groups) - 1)
        text = text[:m.start()] + new + text[close + 1:]
        cnt += 1
        i = m.start() + 3
    return text, cnt


def r10_opt_closures(text):
    cnt = 0
    pat = re.compile(r'((?:\w+)(?:\s*\.\s*\w+(?:\(\))?)*)\s*\.\s*(is_some_and|is_none_or)\(\s*\|(\w+)\|\s*')
    while True:
        m = pat.search(text)
        if not m:
            break
        op = text.index('(', m.start(2))
        cl = match_bracket(text, op, '(', ')')
        body = text[m.end():cl].strip()
        recv = re.sub(r'\s+', '', m.group(1))
        if re.search(r'\b%s: &mut Option<' % re.escape(recv), text):
            recv = '(*%s)' % recv      # a `&mut Option<T>` parameter: the method call auto-derefs (and copies), the match must say so
        dflt = 'false' if m.group(2) == 'is_some_and' else 'true'
        new = f'(match {recv} {{ Some({m.group(3)}) => {body}, None => {dflt} }})'
        text = text[:m.start()] + new + text[cl + 1:]
        cnt += 1
    text, k = r10_opt_filter(text)
    return text, cnt + k


def r10_opt_filter(text):
    """`RECV.filter(|&x| BODY)` on an Option  ->  `(match RECV { Some(x) => if BODY { Some(x) } else { None }, None => None })`.
    RECV is a field path or one call `path(args)`; a receiver that is visibly an iterator chain is left alone.  A wrong guess (an iterator
    the rule did not recognise) does not type-check as a `match` on Some/None, so it ends as a front-end error, never as a verdict."""
    cnt = 0
    pos = 0
    pat = re.compile(r'\s*\.\s*filter\(\s*\|&(\w+)\|\s*')
    while True:
        m = pat.search(text, pos)
        if not m:
            break
        pos = m.end()
        # receiver: scan backwards
        j = m.start()
        k = j
        if k > 0 and text[k - 1] == ')':
            d = 0
            while k > 0:
                k -= 1
                if text[k] == ')':
                    d += 1
                elif text[k] == '(':
                    d -= 1
                    if d == 0:
                        break
        while k > 0 and (text[k - 1].isalnum() or text[k - 1] in '_.:'):
            k -= 1
        recv = text[k:j]
        if not recv or re.search(r'\b(iter|iter_mut|into_iter|keys|values|copied|cloned|enumerate|map|filter|filter_map|chars|bytes|lines|rev|zip|skip|take)\(', recv.split('(')[0] + '(' if '(' in recv else ''):
            continue
        if re.search(r'\.(iter|iter_mut|into_iter|keys|values|copied|cloned|enumerate|chars|bytes|lines|rev)\(\)\s*$', recv):
            continue
        op = text.index('(', m.start() + text[m.start():].index('filter'))
        cl = match_bracket(text, op, '(', ')')
        body = text[m.end():cl].strip()
        x = m.group(1)
        new = f'(match {recv.strip()} {{ Some({x}) => if {body} {{ Some({x}) }} else {{ None }}, None => None }})'
        text = text[:k] + new + text[cl + 1:]
        pos = k + len(new)
        cnt += 1
    return text, cnt


def r13_compound_assign(text):
    """x OP= e;  ->  x = x OP (e);   (simple place expressions only, floats need it)"""
    cnt = 0

    def repl(m):
        nonlocal cnt
        cnt += 1
        if m.group(3) in ('&', '|') and re.search(r'==|!=|<=|>=|<|>|&&|\|\||!\w|\btrue\b|\bfalse\b|\bis_\w+\(|\bhas_\w+\(', m.group(4)):
            # `b &= e` / `b |= e` on bools (Verus has no non-short-circuit bool operators): e is evaluated first, exactly once, as in the original
            return f'{m.group(1)}{{ let rhs_bool = ({m.group(4)}); {m.group(2)} = {m.group(2)} {m.group(3) * 2} rhs_bool; }}'
        return f'{m.group(1)}{m.group(2)} = {m.group(2)} {m.group(3)} ({m.group(4)});'
    text = re.sub(r'(?m)^(\s*)(\*?[\w\.]+(?:\[[^\]\n]*\])?) ([-+*/|&]|<<|>>)= ([^;\n]+);', repl, text)
    return text, cnt


def r14_std(text):
    n = 0
    # T::from_be_bytes([a, b, ..]) -> T_from_be_bytes(a, b, ..)
    pat = re.compile(r'\b(u16|u32|i32|u64)::from_be_bytes\(\[')
    while True:
        m = pat.search(text)
        if not m:
            break
        ob = m.end() - 1
        cb = match_bracket(text, ob, '[', ']')
        if text[cb + 1] != ')':
            raise RuleError('R14: from_be_bytes shape')
        text = text[:m.start()] + f'{m.group(1)}_from_be_bytes(' + text[ob + 1:cb] + ')' + text[cb + 2:]
        n += 1
    text, k = re.subn(r'(?<![\w\.:])min\(', 'cmp_min_i32(', text)
    n += k
    text, k = re.subn(r'\bf64::NEG_INFINITY\b', 'f64_neg_infinity()', text)
    n += k
    text, k = re.subn(r'\bf64::INFINITY\b', 'f64_infinity()', text)
    n += k
    text, k = re.subn(r'\bf64::NAN\b', 'f64_nan()', text)
    n += k
    return text, n


KEEP_MODS = ('classic', 'enhanced', 'cc_classic', 'cc_enhanced')


def r21_flatten_paths(text):
    """R21: every extracted item lives in ONE generated module, so crate-internal paths are flattened:
    `crate::a::b::X` / `srtla_core::a::X` / `srtla_protocol::X` -> `X` (a trailing module that exists as a generated
    sub-module -- classic / enhanced -- is kept), and body-level `use crate::..;` lines are dropped."""
    text, k0 = re.subn(r'^[ \t]*use (?:crate|srtla_core|srtla_protocol|super)::[^;]*;[ \t]*\n', '', text, flags=re.M)
    def sub(m):
        segs = m.group(0).split('::')
        tail = segs[-1]
        if len(segs) >= 3 and segs[-2] in KEEP_MODS:
            return segs[-2] + '::' + tail
        if len(segs) >= 3 and segs[-2][:1].isupper():
            return segs[-2] + '::' + tail     # Type::assoc
        return tail
    text, k = re.subn(r'\b(?:crate|srtla_core|srtla_protocol)(?:::\w+)+', sub, text)
    return text, k0 + k


def clean_source(text, stats, *, features=(), log_free=True):
    """R0..R14 on one extracted item."""
    text = strip_comments(text)
    stats['R0'] += 1
    for name, fn in (('R4', lambda t: r4_resolve_cfg(t, features)), ('R1', r1_strip_log_macros), ('R2', r2_format),
                     ('R3', r3_strip_attrs), ('R5', r5_vis), ('R6', r6_types), ('R10', r10_opt_closures),
                     ('R14', r14_std), ('R9', r9_let_chains), ('R8', r8_range_inclusive), ('R7', r7_cursor_loops),
                     ('R12', r12_filter_count), ('R7t', r7_tuple_loops), ('R13', r13_compound_assign), ('R21', r21_flatten_paths)):
        text, k = fn(text)
        if k:
            stats[name] += k
    return text


def r18_guards_to_ifs(text, scrutinee):
    """`match SCRUT { P1 if G1 => {B1} P2 if G2 => {B2} ... _ => {} }`  ->  `match SCRUT { P1 => { if G1 {B1} } ... _ => {} }`.
    Sound only when the guarded arms have pairwise different head constructors and the only arm a failed guard can fall
    through to is a trailing `_ => {}` with an EMPTY body (checked here; otherwise RuleError).  Needed because this Verus
    loses the frame of `&mut self` across match guards (measured: even a guard that does not mention self)."""
    m = re.search(r'match ' + re.escape(scrutinee) + r' \{', text)
    if not m:
        raise RuleError('R18: match %s not found' % scrutinee)
    ob = m.end() - 1
    cb = match_bracket(text, ob, '{', '}')
    body = text[ob + 1:cb]
    arms = []
    i = 0
    n = len(body)
    while True:
        while i < n and body[i].isspace():
            i += 1
        if i >= n:
            break
        j = body.find('=>', i)
        if j < 0:
            raise RuleError('R18: arm without =>')
        head = body[i:j].strip()
        k = j + 2
        while body[k].isspace():
            k += 1
        if body[k] != '{':
            raise RuleError('R18: arm body is not a block')
        e = match_bracket(body, k, '{', '}')
        arms.append((head, body[k:e + 1]))
        i = e + 1
        while i < n and body[i] in ' ,\n\t':
            i += 1
    if not arms or arms[-1][0] != '_' or arms[-1][1].strip('{} \n\t') != '':
        raise RuleError('R18: last arm is not `_ => {}`')
    heads = []
    out = []
    cnt = 0
    for head, blk in arms[:-1]:
        mm = re.match(r'(.+?)\s+if\s+(.+)$', head, re.S)
        pat = (mm.group(1) if mm else head).strip()
        ctor = re.match(r'[\w:]+', pat).group(0)
        if ctor in heads:
            raise RuleError('R18: two arms share the constructor ' + ctor)
        heads.append(ctor)
        if mm:
            out.append('%s => { if %s %s }' % (pat, ' '.join(mm.group(2).split()), blk))
            cnt += 1
        else:
            out.append('%s => %s' % (pat, blk))
    out.append('_ => {}')
    return text[:ob + 1] + '\n            ' + '\n            '.join(out) + '\n        ' + text[cb:], cnt


def _match_arms(body):
    """split the inside of a `match` block into (head, block) arms; expression arms are wrapped in braces."""
    arms = []
    i = 0
    n = len(body)
    while True:
        while i < n and body[i] in ' \n\t,':
            i += 1
        if i >= n:
            break
        j = i
        while not body.startswith('=>', j):
            t = next_token_pos(body, j, n)
            j = t if t is not None else j + 1
            if j >= n:
                raise RuleError('R20: arm without =>')
        head = body[i:j].strip()
        k = j + 2
        while body[k].isspace():
            k += 1
        if body[k] == '{':
            e = match_bracket(body, k, '{', '}')
            blk = body[k:e + 1]
            i = e + 1
        else:
            d = 0
            e = k
            while e < n:
                t = next_token_pos(body, e, n)
                if t is not None:
                    e = t
                    continue
                c = body[e]
                if c in '([{':
                    d += 1
                elif c in ')]}':
                    d -= 1
                elif c == ',' and d == 0:
                    break
                e += 1
            blk = '{ ' + body[k:e].strip() + ' }'
            i = e + 1
        arms.append((head, blk))
    return arms


def r18_auto(text):
    """general form of R18, applied to every function after the unit's own rewrites:
    `match S { .. P if G => B .. _ => D }`  ->  `match S { .. P => { if G B else D } .. _ => D }`
    when the only arm a failed guard can fall through to is the trailing `_` arm (every guarded arm's head constructor differs
    from the constructor of every other arm, no `|` alternatives, no catch-all binding before the `_`).  D is duplicated
    textually (the `_` arm binds nothing).  Returns (text, rewritten, left): `left` = number of guarded matches the rule could
    NOT lower -- this Verus loses the frame of `&mut` parameters across a match guard (spurious failures), so the caller
    marks such a function `imprecise` and nothing that fails inside it is reported as a violation."""
    done = 0
    left = 0
    pos = 0
    for _ in range(64):
        m = re.compile(r'\bmatch\b(?!\s*!)').search(text, pos)
        if not m:
            break
        # find the block: first `{` at paren depth 0 after the scrutinee
        k = m.end()
        n = len(text)
        d = 0
        while k < n:
            t = next_token_pos(text, k, n)
            if t is not None:
                k = t
                continue
            c = text[k]
            if c in '([':
                d += 1
            elif c in ')]':
                d -= 1
            elif c == '{' and d == 0:
                break
            k += 1
        if k >= n:
            break
        ob = k
        cb = match_bracket(text, ob, '{', '}')
        pos = ob + 1            # nested matches are visited next
        try:
            arms = _match_arms(text[ob + 1:cb])
        except (RuleError, IndexError):
            continue
        G = re.compile(r'(.+?)\s+if\s+(.+)$', re.S)
        if not any(G.match(h) for h, b in arms):
            continue
        # head constructor of every arm; '_' for the wildcard, None for anything the rule does not understand
        def ctor_of(pat):
            pat = pat.strip()
            if pat == '_':
                return '_', True
            c = re.match(r'&?\s*([\w:]+)\s*(\(([^()]*)\))?$', pat)
            if '|' in pat or '@' in pat or not c or not (c.group(1)[0].isupper() or c.group(1)[0].isdigit() or '::' in c.group(1)):
                c2 = re.match(r'&?\s*([\w:]+)', pat)
                if c2 and '|' not in pat and '@' not in pat and (c2.group(1)[0].isupper() or '::' in c2.group(1)):
                    return c2.group(1), False
                return None, False
            blank = c.group(3) is None or all(x.strip() in ('_', '..') for x in c.group(3).split(','))
            return c.group(1), blank
        heads = []
        for h, b in arms:
            g = G.match(h)
            heads.append((g, ) + ctor_of(g.group(1) if g else h))
        ok = all(c is not None for g, c, blank in heads)
        target = {}
        if ok:
            for i, (g, c, blank) in enumerate(heads):
                if not g:
                    continue
                # the first later arm that a value of constructor c can reach must be unguarded and bind nothing
                for j in range(i + 1, len(arms)):
                    gj, cj, bj = heads[j]
                    if cj == c or cj == '_':
                        if gj is None and bj:
                            target[i] = j
                        break
                if i not in target:
                    ok = False
                    break
        if not ok:
            left += 1
            continue
        out = []
        for i, (h, b) in enumerate(arms):
            g = heads[i][0]
            if g:
                cond = ' '.join(g.group(2).split())
                dflt = arms[target[i]][1]
                if dflt.strip('{} \n\t') == '':
                    out.append('%s => { if %s %s }' % (g.group(1).strip(), cond, b))
                else:
                    out.append('%s => { if %s %s else %s }' % (g.group(1).strip(), cond, b, dflt))
                done += 1
            else:
                out.append('%s => %s' % (h, b))
        text = text[:ob + 1] + '\n            ' + '\n            '.join(out) + '\n        ' + text[cb:]
    return text, done, left


def r20_str_match(text, scrutinee, eq='str_eq'):
    """`match S { "a" => A, "b" | "c" => B, other => D }` (string-literal patterns)  ->
    `if str_eq(S,"a") {A} else if str_eq(S,"b") || str_eq(S,"c") {B} else { let other = S; D }`.
    Arms keep their order, so the first matching arm wins exactly as in the match."""
    m = re.search(r'match ' + re.escape(scrutinee) + r' \{', text)
    if not m:
        raise RuleError('R20: match %s not found' % scrutinee)
    ob = m.end() - 1
    cb = match_bracket(text, ob, '{', '}')
    arms = _match_arms(text[ob + 1:cb])
    out = []
    for idx, (head, blk) in enumerate(arms):
        lits = [h.strip() for h in head.split('|')]
        if all(re.fullmatch(r'"[^"]*"', h) for h in lits):
            cond = ' || '.join('%s(%s, %s)' % (eq, scrutinee, h) for h in lits)
            out.append(('if ' if idx == 0 else 'else if ') + cond + ' ' + blk)
        elif re.fullmatch(r'\w+', head) and idx == len(arms) - 1:
            bind = '' if head == '_' else 'let %s = %s; ' % (head, scrutinee)
            out.append('else { ' + bind + blk + ' }')
        else:
            raise RuleError('R20: unsupported pattern ' + head)
    return text[:m.start()] + '\n        '.join(out) + text[cb + 1:], len(arms)


def r20_str_opt_match(text, s_expr, o_expr, eq='str_eq'):
    """`match (S, O) { ("a", Some(x)) => A, .., (_, _) => D }`  ->  `if str_eq(S,"a") && O.is_some() { let x = O.unwrap(); A } .. else D`."""
    m = re.search(r'match \(' + re.escape(s_expr) + r',\s*' + re.escape(o_expr) + r'\) \{', text)
    if not m:
        raise RuleError('R20: tuple match not found')
    ob = m.end() - 1
    cb = match_bracket(text, ob, '{', '}')
    arms = _match_arms(text[ob + 1:cb])
    out = []
    for idx, (head, blk) in enumerate(arms):
        h = re.fullmatch(r'\(\s*("[^"]*")\s*,\s*Some\((\w+)\)\s*\)', head)
        if h:
            out.append(('if ' if idx == 0 else 'else if ') + '%s(%s, %s) && %s.is_some() { let %s = %s.unwrap(); %s }' % (eq, s_expr, h.group(1), o_expr, h.group(2), o_expr, blk))
        elif re.fullmatch(r'\(\s*_\s*,\s*_\s*\)', head) and idx == len(arms) - 1:
            out.append('else ' + blk)
        elif re.fullmatch(r'\(\s*("[^"]*")\s*,\s*(None|_)\s*\)', head):
            h = re.fullmatch(r'\(\s*("[^"]*")\s*,\s*(None|_)\s*\)', head)
            cond = '%s(%s, %s)' % (eq, s_expr, h.group(1)) + (' && %s.is_none()' % o_expr if h.group(2) == 'None' else '')
            out.append(('if ' if idx == 0 else 'else if ') + cond + ' ' + blk)
        else:
            raise RuleError('R20: unsupported tuple pattern ' + head)
    return text[:m.start()] + '\n        '.join(out) + text[cb + 1:], len(arms)


def r12_filter_count(text):
    """`let X = E.iter().filter(|c| COND).count();`  ->  a counting cursor loop (COND text kept verbatim):
        let mut X_n: usize = 0; let mut c_nx: usize = 0;
        while c_nx < E.len() /*@LOOPSPEC*/ { let c = &E[c_nx]; c_nx += 1; if COND { X_n += 1; } }
        let X = X_n;"""
    pat = re.compile(r'let (\w+) = (\w+(?:\.\w+)*)\s*\.iter\(\)\s*\.filter\(\|(\w+)\| (.*?)\)\s*\.count\(\);', re.S)
    def sub(m):
        x, e, c, cond = m.group(1), m.group(2), m.group(3), m.group(4).strip()
        dflt = '/*@LOOPSPEC:            invariant %s_nx <= %s.len(), %s_n <= %s_nx,\n            decreases %s.len() - %s_nx,*/' % (c, e, x, c, e, c)
        head = 'let mut %s_n: usize = 0;\n        let mut %s_nx: usize = 0;\n        while %s_nx < %s.len() ' % (x, c, c, e)
        tail = ('\n        {\n            let %s = &%s[%s_nx]; %s_nx += 1;\n            if %s { %s_n += 1; }\n        }\n        let %s = %s_n;'
                % (c, e, c, c, cond, x, x, x))
        return head + dflt + tail
    text, k = pat.subn(sub, text)
    # the same chain in EXPRESSION position (a tail expression, an argument, a cast operand) -> a block expression with the same loop
    pat2 = re.compile(r'(?<![\w\.])(\w+(?:\.\w+)*)\s*\.iter\(\)\s*\.filter\(\|(\w+)\| ((?:[^()]|\([^()]*\))*?)\)\s*\.count\(\)', re.S)
    def sub2(m):
        e, c, cond = m.group(1), m.group(2), m.group(3).strip()
        dflt = '/*@LOOPSPEC:            invariant %s_nx <= %s.len(), %s_cnt <= %s_nx,\n            decreases %s.len() - %s_nx,*/' % (c, e, c, c, e, c)
        return ('({ let mut %s_cnt: usize = 0;\n        let mut %s_nx: usize = 0;\n        while %s_nx < %s.len() %s\n        {\n            let %s = &%s[%s_nx]; %s_nx += 1;\n'
                '            if %s { %s_cnt += 1; }\n        }\n        %s_cnt })' % (c, c, c, e, dflt, c, e, c, c, cond, c, c))
    text, k2 = pat2.subn(sub2, text)
    return text, k + k2


def r12_position(text):
    """`if let Some(I) = E.iter().position(|c| COND) {`  ->  a search cursor loop (COND kept verbatim) followed by `if let Some(I) = I_pos {`:
        let mut I_pos: Option<usize> = None; let mut c_nx: usize = 0;
        while c_nx < E.len() /*@LOOPSPEC*/ { let c = &E[c_nx]; if COND { I_pos = Some(c_nx); break; } c_nx += 1; }"""
    pat = re.compile(r'(?m)^(\s*)if let Some\((\w+)\) = (\w+(?:\.\w+)*)\s*\.iter\(\)\s*\.position\(\|(\w+)\| (.*?)\) \{$', re.S)
    def sub(m):
        ind, i, e, c, cond = m.group(1), m.group(2), m.group(3), m.group(4), m.group(5).strip()
        return (f'{ind}let mut {i}_pos: Option<usize> = None;\n{ind}let mut {c}_nx: usize = 0;\n{ind}while {c}_nx < {e}.len()\n{ind}    /*@LOOPSPEC*/\n{ind}{{\n'
                f'{ind}    let {c} = &{e}[{c}_nx];\n{ind}    if {cond} {{ {i}_pos = Some({c}_nx); break; }}\n{ind}    {c}_nx += 1;\n{ind}}}\n'
                f'{ind}if let Some({i}) = {i}_pos {{')
    return pat.subn(sub, text)


def r22_fold_float_const(text):
    """R22: `const X: f64 = A op B;` with two float literals is folded to its IEEE-754 double value (Python floats are the same
    binary64 arithmetic, round-to-nearest-even): Verus cannot evaluate float operators in a const initialiser."""
    m = re.search(r'(:\s*f64\s*=\s*)([0-9][0-9_]*\.[0-9_]*)\s*([-+*/])\s*([0-9][0-9_]*\.[0-9_]*)\s*;', text)
    if not m:
        return text, 0
    a, b = float(m.group(2).replace('_', '')), float(m.group(4).replace('_', ''))
    if m.group(3) == '/' and b == 0.0:
        return text, 0
    v = {'+': a + b, '-': a - b, '*': a * b, '/': a / b if b else 0.0}[m.group(3)]
    lit = repr(v)
    if 'e' in lit or 'inf' in lit or 'nan' in lit:
        return text, 0
    if '.' not in lit:
        lit += '.0'
    return text[:m.start()] + m.group(1) + lit + ';' + text[m.end():], 1


# ---------------------------------------------------------------- R19: iterator chains that build a collection -> cursor loops
def r19_collect_set(text):
    """`let X: HashSet<T> = SRC.iter().map(|v| EXPR).collect();`  ->  `let mut X: HashSet<T> = <HashSet<T>>::new();` + cursor loop inserting EXPR."""
    pat = re.compile(r'let (\w+): (HashSet<[^>]+>) = (\w+(?:\.\w+)*)\s*\.iter\(\)\s*\.map\(\|(\w+)\| (.*?)\)\s*\.collect\(\);', re.S)
    def sub(m):
        x, ty, src, v, expr = m.group(1), m.group(2), m.group(3), m.group(4), m.group(5).strip()
        return (f'let mut {x}: {ty} = <{ty}>::new();\n    let mut {x}_nx: usize = 0;\n    while {x}_nx < {src}.len()\n        /*@LOOPSPEC*/\n    {{\n'
                f'        let {v} = &{src}[{x}_nx]; {x}_nx += 1;\n        {x}.insert({expr});\n    }}')
    return pat.subn(sub, text)


def r19_filter_map_collect(text):
    """`let X: Vec<T> = SRC.iter().filter(|c| COND).map(|c| EXPR).collect();`  ->  cursor loop `if COND { X.push(EXPR); }`."""
    pat = re.compile(r'let (\w+): (Vec<[^>]+>) = (\w+(?:\.\w+)*)\s*\.iter\(\)\s*\.filter\(\|(\w+)\| (.*?)\)\s*\.map\(\|(\w+)\| (.*?)\)\s*\.collect\(\);', re.S)
    def sub(m):
        x, ty, src, c, cond, c2, expr = (m.group(i) for i in range(1, 8))
        if c2 != c:
            expr = re.sub(r'\b%s\b' % re.escape(c2), c, expr)
        return (f'let mut {x}: {ty} = <{ty}>::new();\n    let mut {x}_nx: usize = 0;\n    while {x}_nx < {src}.len()\n        /*@LOOPSPEC*/\n    {{\n'
                f'        let {c} = &{src}[{x}_nx]; {x}_nx += 1;\n        if {cond.strip()} {{ {x}.push({expr.strip()}); }}\n    }}')
    return pat.subn(sub, text)


def r19_retain(text):
    """`V.retain(|c| COND);`  ->  in-place order-preserving removal loop (what Vec::retain is specified to do):
        let mut V_rx = 0; while V_rx < V.len() { let keep = { let c = &V[V_rx]; COND }; if keep { V_rx += 1; } else { V.remove(V_rx); } }
    plus a ghost counter `V_seen` of how many ORIGINAL elements have been examined (for loop clauses)."""
    pat = re.compile(r'(?m)^(\s*)(\w+)\.retain\(\|(\w+)\| (.*?)\);', re.S)
    def sub(m):
        ind, v, c, cond = m.group(1), m.group(2), m.group(3), m.group(4).strip()
        return (f'{ind}let ghost {v}_orig = {v}@;\n{ind}let ghost mut {v}_seen: int = 0;\n{ind}let mut {v}_rx: usize = 0;\n{ind}while {v}_rx < {v}.len()\n{ind}    /*@LOOPSPEC*/\n{ind}{{\n'
                f'{ind}    let keep = {{ let {c} = &{v}[{v}_rx]; {cond} }};\n{ind}    proof {{ {v}_seen = {v}_seen + 1; }}\n'
                f'{ind}    if keep {{ {v}_rx += 1; }} else {{ {v}.remove({v}_rx); }}\n{ind}}}')
    return pat.subn(sub, text)


def r19_copied_filters_collect(text):
    """`let X: C<T> = SRC.iter().copied().filter(|p| C1).filter(|p| C2)...collect();`  ->  cursor loop:
        let p_val = SRC[i]; let p = &p_val; if !(C1) { continue; } if !(C2) { continue; } X.push(p_val);
    (filters run in order and short-circuit exactly like the adapter chain; a closure body may be a block)."""
    m = re.search(r'let (\w+): ((?:SmallVec|Vec)<[^;=]+?>) = (\w+(?:\.\w+)*)\s*\.iter\(\)\s*\.copied\(\)', text)
    if not m:
        return text, 0
    x, ty, src = m.group(1), m.group(2), m.group(3)
    i = m.end()
    conds = []
    par = None
    while True:
        mm = re.compile(r'\s*\.filter\(').match(text, i)
        if not mm:
            break
        op = mm.end() - 1
        cp = match_bracket(text, op, '(', ')')
        inner = text[op + 1:cp].strip()
        mc = re.match(r'\|(\w+)\|\s*(.*)$', inner, re.S)
        if not mc:
            raise RuleError('R19: filter closure shape')
        par = par or mc.group(1)
        body = mc.group(2).strip()
        if mc.group(1) != par:
            body = re.sub(r'\b%s\b' % re.escape(mc.group(1)), par, body)
        conds.append(body)
        i = cp + 1
    me = re.compile(r'\s*\.collect\(\);').match(text, i)
    if not me or not conds:
        raise RuleError('R19: copied().filter()..collect() shape')
    lines = [f'let mut {x}: {ty} = <{ty}>::new();', f'    let mut {x}_nx: usize = 0;', f'    while {x}_nx < {src}.len()', '        /*@LOOPSPEC*/', '    {',
             f'        let {par}_val = {src}[{x}_nx]; {x}_nx += 1;', f'        let {par} = &{par}_val;']
    for c in conds:
        lines.append(f'        if !({c}) {{ continue; }}')
    lines += [f'        {x}.push({par}_val);', '    }']
    return text[:m.start()] + '\n'.join(lines) + text[me.end():], 1


def r12_find_mut(text):
    """`if let Some(X) = E.iter_mut().find(|r| COND) [&& COND2] { BODY }`  ->  a search cursor loop for the FIRST matching index, then
        if let Some(X_ix) = X_pos { let X = &mut E[X_ix]; [if COND2] { BODY } }
    (COND, COND2 and BODY kept verbatim; `find` returns the first match, so does the loop)."""
    m = re.search(r'(?m)^(\s*)if let Some\((\w+)\) = ((?:self\s*\.\s*)?\w+(?:\.\w+)*)\s*\.iter_mut\(\)\s*\.find\(\|(\w+)\| (.*?)\)\s*(?:&&\s*(.*?))?\s*\{', text, re.S)
    if not m:
        return text, 0
    ind, x, e, r, cond, cond2 = m.group(1), m.group(2), re.sub(r'\s+', '', m.group(3)), m.group(4), m.group(5).strip(), (m.group(6) or '').strip()
    ob = m.end() - 1
    cb = match_bracket(text, ob, '{', '}')
    body = text[ob:cb + 1]
    dflt = ('/*@LOOPSPEC:            invariant %s_nx <= %s.len(), %s_pos is Some ==> %s_pos.unwrap() < %s.len(),\n            decreases %s.len() - %s_nx,*/'
            % (r, e, x, x, e, e, r))
    head = (f'{ind}let mut {x}_pos: Option<usize> = None;\n{ind}let mut {r}_nx: usize = 0;\n{ind}while {r}_nx < {e}.len() {dflt}\n{ind}{{\n'
            f'{ind}    let {r} = &{e}[{r}_nx];\n{ind}    if {cond} {{ {x}_pos = Some({r}_nx); break; }}\n{ind}    {r}_nx += 1;\n{ind}}}\n'
            f'{ind}if let Some({x}_ix) = {x}_pos {{\n{ind}    let {x} = &mut {e}[{x}_ix];\n')
    inner = (f'{ind}    if {cond2} ' if cond2 else f'{ind}    ') + body + f'\n{ind}}}'
    return text[:m.start()] + head + inner + text[cb + 1:], 1


def r19_entry_or_insert_with(text):
    """`M.entry(K).or_insert_with(|| EXPR);`  ->  `if !M.contains_key(&(K)) { M.insert(K, EXPR); }`  (EXPR is evaluated only when the key is absent,
    exactly like the closure; the returned `&mut V` is discarded by the `;`)."""
    cnt = 0
    pat = re.compile(r'(\w+(?:\.\w+)*)\.entry\(')
    pos = 0
    while True:
        m = pat.search(text, pos)
        if not m:
            break
        op = m.end() - 1
        cp = match_bracket(text, op, '(', ')')
        mm = re.compile(r'\s*\.or_insert_with\(\s*\|\|\s*').match(text, cp + 1)
        if not mm:
            pos = cp
            continue
        op2 = text.index('(', cp + 1)
        cp2 = match_bracket(text, op2, '(', ')')
        expr = text[mm.end():cp2].strip()
        me = re.compile(r'\s*;').match(text, cp2 + 1)
        if not me:
            pos = cp2
            continue
        key = text[op + 1:cp].strip()
        mname = m.group(1)
        new = 'if !%s.contains_key(&(%s)) { %s.insert(%s, %s); }' % (mname, key, mname, key, expr)
        text = text[:m.start()] + new + text[me.end():]
        pos = m.start() + len(new)
        cnt += 1
    return text, cnt


def r19_hashmap_retain(text, keys_fn='hashmap_keys_u64', get_mut_fn='hashmap_get_mut_u64'):
    """`M.retain(|k, v| BODY);` on a HashMap (BODY may have side effects on v)  ->
        let M_keys = hashmap_keys_u64(&M);  // trusted: a Vec holding exactly the keys, each once
        cursor loop: let k = &M_keys[i]; let keep = match hashmap_get_mut_u64(&mut M, *k) { Some(v) => BODY, None => true }; if !keep { M.remove(k); }
    HashMap::retain visits every entry once in an unspecified order, keeps it iff BODY returns true: so does the loop."""
    m = re.search(r'(?m)^(\s*)((?:self\.)?\w+(?:\.\w+)*)\.retain\(\|(\w+), (\w+)\|\s*', text)
    if not m:
        return text, 0
    ind, mp, k, v = m.group(1), m.group(2), m.group(3), m.group(4)
    nm = mp.split('.')[-1]
    op = text.index('(', m.start())
    cp = match_bracket(text, op, '(', ')')
    body = text[m.end():cp].strip()
    me = re.compile(r'\s*;').match(text, cp + 1)
    if not me:
        raise RuleError('R19: retain shape')
    mref = mp if '.' not in mp else '&mut ' + mp      # a `&mut HashMap` parameter is passed on as it is, a field is re-borrowed
    new = (f'{ind}let {nm}_keys = {keys_fn}(&{mp});\n{ind}let mut {k}_nx: usize = 0;\n{ind}while {k}_nx < {nm}_keys.len()\n{ind}    /*@LOOPSPEC*/\n{ind}{{\n'
           f'{ind}    let {k} = &{nm}_keys[{k}_nx]; {k}_nx += 1;\n'
           f'{ind}    let keep = match {get_mut_fn}({mref}, *{k}) {{ Some({v}) => {body}, None => true }};\n'
           f'{ind}    if !keep {{ {mp}.remove({k}); }}\n{ind}}}')
    return text[:m.start()] + new + text[me.end():], 1


def r19_entry_or_default_let(text, get_mut_fn='hashmap_get_mut_u64'):
    """`let E = M.entry(K).or_default();`  ->  `if !M.contains_key(&(K)) { M.insert(K, Default::default()); }  let E = get_mut(&mut M, K).unwrap();`
    (or_default inserts the default value when the key is absent and returns the entry's `&mut V` either way)."""
    pat = re.compile(r'(?m)^(\s*)let (\w+) = ((?:self\.)?\w+(?:\.\w+)*)\.entry\(([^()]*(?:\([^()]*\))?[^()]*)\)\s*\.or_default\(\);')
    def sub(m):
        ind, e, mp, key = m.group(1), m.group(2), m.group(3), m.group(4).strip()
        return (f'{ind}if !{mp}.contains_key(&({key})) {{ {mp}.insert({key}, Default::default()); }}\n'
                f'{ind}let {e} = {get_mut_fn}(&mut {mp}, {key}).unwrap();')
    return pat.subn(sub, text)
