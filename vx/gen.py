"""Generator: pulls real items out of /repo, applies the rewrite rules, splices the
contract overlay and writes gen/<unit>.rs plus gen/<unit>.map.json."""
import hashlib
import json
import os
import re
from collections import Counter

import rules
from rules import RuleError
from rustlex import scan_items, match_bracket, strip_comments, next_token_pos, LexError

REPO = os.environ.get('VERIF_REPO', '/repo')
VERIF = os.path.dirname(os.path.dirname(os.path.abspath(__file__)))
NO_LOOP_ISOLATION = bool(os.environ.get('VERIF_NO_LOOP_ISOLATION'))   # second-opinion run: every loop sees the facts established before it
VACUITY = bool(os.environ.get('VERIF_VACUITY'))   # set by the driver for the probe run only
GEN = os.environ.get('VERIF_GEN_DIR') or os.path.join(VERIF, 'gen')   # VERIF_GEN_DIR: scratch runs (seeded-change triage in parallel) only


class LostAnchor(Exception):
    """an item / anchor / loop named by the overlay does not exist any more -> exit 2"""


_SRC_CACHE = {}


def read_src(rel):
    p = os.path.join(REPO, rel)
    if p not in _SRC_CACHE:
        try:
            _SRC_CACHE[p] = open(p).read()
        except OSError as e:
            raise LostAnchor('source file missing: %s' % rel)
    return _SRC_CACHE[p]


def _find(src, kind, name, impl=None, mod=None):
    items = scan_items(src)
    scope = items
    lo, hi = 0, len(src)
    if mod:
        for it in items:
            if it['kind'] == 'mod' and it['name'] == mod and it['body'] is not None:
                scope = scan_items(src, it['body'] + 1, it['end'] - 1)
                break
        else:
            raise LostAnchor('mod %s' % mod)
    if impl:
        cands = [it for it in scope if it['kind'] == 'impl' and it['name'] == impl]
        if not cands:
            raise LostAnchor('impl %s' % impl)
        for it in cands:
            for jt in scan_items(src, it['body'] + 1, it['end'] - 1):
                if jt['kind'] == kind and jt['name'] == name:
                    return jt
        raise LostAnchor('%s %s in impl %s' % (kind, name, impl))
    for it in scope:
        if it['kind'] == kind and it['name'] == name:
            return it
    raise LostAnchor('%s %s' % (kind, name))


class Clause:
    """one contract clause; tag may be None (scaffolding)."""

    def __init__(self, text, tag=None):
        self.text = text.strip().rstrip(',')
        self.tag = tag


def C(tag, text):
    return Clause(text, tag)


def _clauses(xs):
    out = []
    for x in xs or []:
        out.append(x if isinstance(x, Clause) else Clause(x))
    return out


def _emit_clauses(kw, cls, ind='    '):
    if not cls:
        return ''
    lines = [ind + kw]
    for c in cls:
        body = c.text.split('\n')
        first = ind + '    ' + body[0] + (',' if len(body) == 1 else '')
        if c.tag:
            first += '  // @ob ' + c.tag
        lines.append(first)
        for k, b in enumerate(body[1:]):
            lines.append(ind + '    ' + b + (',' if k == len(body) - 2 else ''))
    return '\n'.join(lines) + '\n'


_LOOPSPEC = re.compile(r'/\*@LOOPSPEC(?::(.*?))?\*/', re.S)


def find_loops(body):
    """indices (position of keyword, position of body '{') of loops in textual order."""
    out = []
    i = 0
    n = len(body)
    pat = re.compile(r'\b(while|for|loop)\b')
    while i < n:
        t = next_token_pos(body, i, n)
        if t is not None:
            i = t
            continue
        m = pat.match(body, i)
        if m and (i == 0 or not (body[i - 1].isalnum() or body[i - 1] in '_.')):
            kw = m.group(1)
            # `for<'a>` in types / `impl X for Y` do not occur inside fn bodies we extract
            k = m.end()
            d = 0
            while k < n:
                t = next_token_pos(body, k, n)
                if t is not None:
                    k = t
                    continue
                c = body[k]
                if c in '([':
                    d += 1
                elif c in ')]':
                    d -= 1
                elif c == '{' and d == 0:
                    break
                k += 1
            out.append((i, k, kw))
            i = m.end()
            continue
        i += 1
    return out


class Unit:
    def __init__(self, name, features=()):
        self.name = name
        self.features = tuple(features)
        self.parts = []
        self.prov = []           # provenance of extracted items
        self.fn_overlays = {}    # qualified name -> info (for vacuity probes / evidence)
        self.stubbed = []        # fns emitted as external_body stubs with contracts
        self.imprecise = {}         # fns containing a construct this Verus handles imprecisely (spurious failures): qname -> reason
        self.unspec_loops = set()   # fns containing a loop without any invariant (added by a change): panic freedom there is undecidable
        self.restructured = set()   # fns whose loops no longer map 1:1 onto the overlay's loop signatures
        self.header_uses = ['use vstd::prelude::*;']
        self.active = None       # set of sub-unit names whose bodies are verified (None = all)
        self.fn_files = []       # source files functions were taken from (their top-level consts are extracted automatically)
        self.const_names = set()

    # ---------- raw text ----------
    def add(self, text):
        self.parts.append(text.rstrip() + '\n')

    def use(self, line):
        if line not in self.header_uses:
            self.header_uses.append(line)

    # ---------- extraction ----------
    def raw(self, rel, kind, name, impl=None, mod=None):
        src = read_src(rel)
        it = _find(src, kind, name, impl, mod)
        text = src[it['start']:it['end']]
        l0 = src.count('\n', 0, it['start']) + 1
        l1 = src.count('\n', 0, it['end']) + 1
        return text, dict(file=rel, kind=kind, name=(impl + '::' if impl else '') + name, lines=[l0, l1],
                          sha256=hashlib.sha256(text.encode()).hexdigest())

    def audit(self, rel, name, impl=None, mod=None, sig=(), forbid=(), require=()):
        """syntactic audit of a repository function that the overlay models by a hand-written STUB (its body is outside the Verus subset):
        the real signature must still contain every `sig` text and the real body (comments stripped) must match every `require` regex and
        none of the `forbid` regexes.  A failed audit means the stub's assumed contract may no longer describe the code: LostAnchor ->
        the unit is undecided (exit 2), never green."""
        text, prov = self.raw(rel, 'fn', name, impl, mod)
        text = rules.strip_comments(text)
        flat = ' '.join(text.split())
        k = flat.find('{')
        head, body = flat[:k], flat[k:]
        q = (impl + '::' if impl else '') + name
        for t in sig:
            if ' '.join(t.split()) not in head:
                raise LostAnchor('audit of stubbed %s: signature no longer contains %r' % (q, t))
        for rx in forbid:
            if re.search(rx, body):
                raise LostAnchor('audit of stubbed %s: body now matches forbidden pattern %r (the stub assumes it does not)' % (q, rx))
        for rx in require:
            if not re.search(rx, body):
                raise LostAnchor('audit of stubbed %s: body no longer matches %r' % (q, rx))
        prov['audited_stub'] = True
        prov['name'] = q
        self.prov.append(prov)

    def item(self, rel, kind, name, impl=None, mod=None, pub_fields=True, post=None):
        """extract + clean a non-function item (struct/enum/const/type)."""
        text, prov = self.raw(rel, kind, name, impl, mod)
        if kind == 'const':
            self.const_names.add(name)
        stats = Counter()
        text = rules.clean_source(text, stats, features=self.features)
        if kind == 'struct' and pub_fields:
            text, k = rules.r5_pub_fields(text)
            stats['R5'] += k
        text, k = rules.r5_pub_item(text)
        stats['R5'] += k
        if kind == 'const':
            text, k = rules.r22_fold_float_const(text)
            stats['R22'] += k
        if post:
            text = post(text)
        prov['rules'] = dict(stats)
        self.prov.append(prov)
        return text

    def consts(self, rel, names=None, skip=()):
        """all top-level consts of a file (or the named ones)."""
        src = read_src(rel)
        out = []
        for it in scan_items(src):
            if it['kind'] == 'const' and (names is None or it['name'] in names) and it['name'] not in skip:
                out.append(self.item(rel, 'const', it['name']))
        if names is not None:
            have = {x['name'] for x in scan_items(src) if x['kind'] == 'const'}
            for nm in names:
                if nm not in have:
                    raise LostAnchor('const %s in %s' % (nm, rel))
        return '\n'.join(out)

    def fn(self, rel, name, impl=None, mod=None, *, sub=None, ret=None, requires=None, ensures=None, loops=None,
           splices=None, pre_rewrite=None, post_rewrite=None, stub=False, qual=None, erase_async=False,
           decreases=None, no_unwind=False, attrs='', props=(), spinoff=None):
        """extract a function, apply rules and overlay.
        loops: {ordinal: dict(inv=[clauses], dec='expr')}.
        splices: [(anchor, text, 'before'|'after')], anchor must occur exactly once in the body;
                 anchor '@END' = before the final closing brace.
        pre_rewrite/post_rewrite: [(regex_or_literal, replacement, expected_count)] applied to the cleaned text
                 before/after the generic rules (unit-specific mechanical rewrites, R11/R12/R15/R16)."""
        text, prov = self.raw(rel, 'fn', name, impl, mod)
        if rel not in self.fn_files and not mod:
            self.fn_files.append(rel)
        stats = Counter()
        for (pat, rep, cnt) in pre_rewrite or []:
            text = self._rewrite(text, pat, rep, cnt, name, stats)
        text = rules.clean_source(text, stats, features=self.features)
        if erase_async:
            text, k = re.subn(r'\basync fn\b', 'fn', text)
            text, k2 = re.subn(r'\s*\.await\b', '', text)
            stats['R15'] += k + k2
        for (pat, rep, cnt) in post_rewrite or []:
            text = self._rewrite(text, pat, rep, cnt, name, stats)
        text, k18, left18 = rules.r18_auto(text)
        stats['R18'] += k18
        text, k = rules.r5_pub_item(text)
        # split signature / body
        fnpos = re.search(r'\bfn\b', text).start()
        k = fnpos
        n = len(text)
        while k < n:
            c = text[k]
            if c in '([':
                k = match_bracket(text, k) + 1
                continue
            if c == '{':
                break
            k += 1
        sig = text[:k].rstrip()
        body = text[k:]
        qname = qual or ((mod + '::' if mod else '') + (impl + '::' if impl else '') + name)
        req = _clauses(requires)
        ens = _clauses(ensures)
        if ret:
            m = re.search(r'->\s*([^{]+)$', sig)
            if not m:
                raise LostAnchor('%s: no return type to name' % qname)
            sig = sig[:m.start()] + '-> (' + ret + ': ' + m.group(1).strip() + ')'
        contract = _emit_clauses('requires', req) + _emit_clauses('ensures', ens)
        if decreases:
            contract += '    decreases ' + decreases + ',\n'
        if no_unwind:
            contract += '    no_unwind\n'
        is_stub = stub or (self.active is not None and sub is not None and sub not in self.active)
        info = dict(qname=qname, file=rel, sub=sub, requires=[c.text for c in req],
                    ensures=[(c.tag, c.text) for c in ens], stub=is_stub, sig=sig, props=list(props))
        self.fn_overlays[qname] = info
        if left18 and not is_stub and '&mut' in sig:     # (no `&mut` parameter: there is no frame to lose, the guard is encoded precisely)
            self.imprecise[qname] = 'a match guard the extractor cannot lower (R18) remains: this Verus loses the frame of &mut parameters across match guards'
        prov['rules'] = dict(stats)
        prov['stubbed_here'] = is_stub
        prov['name'] = qname
        self.prov.append(prov)
        if is_stub:
            self.stubbed.append(qname)
            # drop tags: obligations of a stub are proved in the unit that owns the body
            contract_nt = re.sub(r'\s*// @ob [^\n]*', '', contract)
            return (attrs + '#[verifier::external_body]\n' + sig + '\n' + contract_nt + '{ unimplemented!() }\n')
        # functions with loop invariants / proof splices get their own Z3 instance: their verdict then depends on
        # their own text only (no solver state carried over from neighbouring functions -> no cross-function flakiness)
        if spinoff or (spinoff is None and (loops or splices)):
            attrs = attrs + '#[verifier::spinoff_prover]\n'
        if NO_LOOP_ISOLATION and 'loop_isolation' not in attrs and re.search(r'\b(while|loop|for)\b', body):
            attrs = attrs + '#[verifier::loop_isolation(false)]\n#[verifier::allow_complex_invariants]\n'
        # loops
        loops = loops or {}
        found = find_loops(body)
        if any(isinstance(k, str) for k in loops):
            # loops addressed by a SIGNATURE (a statement their body must contain) instead of an ordinal: survives added /
            # removed / merged loops.  A loop matched by several signatures gets the union of their clauses.
            by_ord = {}
            for key, spec in loops.items():
                if isinstance(key, int):
                    by_ord.setdefault(key, []).append(spec)
                    continue
                hits = []
                for o, (kwpos, bpos, kw) in enumerate(found):
                    end = match_bracket(body, bpos, '{', '}')
                    if key in body[bpos:end]:
                        hits.append((end - bpos, o))
                if not hits:
                    if spec.get('opt'):
                        continue
                    raise LostAnchor('%s: no loop contains %r' % (qname, key))
                hits.sort()
                # nested loops both contain the text: the innermost one is meant.  Disjoint loops with the same signature: the
                # function was restructured -- every such loop gets the clauses, and the function is marked `restructured`
                inner = hits[0][1]
                i0, i1 = found[inner][1], match_bracket(body, found[inner][1], '{', '}')
                disjoint = [o for sz, o in hits[1:] if not (found[o][1] <= i0 and match_bracket(body, found[o][1], '{', '}') >= i1)]
                for o in [inner] + disjoint:
                    by_ord.setdefault(o, []).append(spec)
                if disjoint:
                    self.restructured.add(qname)
            merged = {}
            for o, specs in by_ord.items():
                if len(specs) > 1 and any(isinstance(k, str) for k in loops):
                    self.restructured.add(qname)    # one loop now does the work of several
                m = dict(inv=[], inv_eb=[], ens=[], dec=None, begin='', end='', before='', after='')
                for sp in specs:
                    for k in ('begin', 'end', 'before', 'after'):
                        if sp.get(k):
                            m[k] += sp[k] + '\n'
                    for k in ('inv', 'inv_eb', 'ens'):
                        for c in _clauses(sp.get(k)):
                            if all(c.text != d.text for d in m[k]):
                                m[k].append(c)
                    m['dec'] = m['dec'] or sp.get('dec')
                merged[o] = m
            loops = merged
        if loops and max(loops) >= len(found):
            raise LostAnchor('%s: loop #%d not found (%d loops)' % (qname, max(loops), len(found)))
        # insert from the back so indices stay valid
        for ordinal in sorted(loops, reverse=True):
            spec = loops[ordinal]
            kwpos, bpos, kw = found[ordinal]
            txt = ''
            if spec.get('inv_eb'):
                txt += _emit_clauses('invariant_except_break', _clauses(spec.get('inv_eb')), ind='        ')
            txt += _emit_clauses('invariant', _clauses(spec.get('inv')), ind='        ')
            if spec.get('ens'):
                txt += _emit_clauses('ensures', _clauses(spec.get('ens')), ind='        ')
            if spec.get('dec'):
                txt += '            decreases ' + spec['dec'] + ',\n'
            # proof text tied to the loop itself rather than to a statement in it (no anchor to lose):
            #   begin / end = first / last thing in the loop body, before / after = just before the `while` / just after the loop
            bend = match_bracket(body, bpos, '{', '}')
            if spec.get('after'):
                body = body[:bend + 1] + '\n' + spec['after'] + body[bend + 1:]
            if spec.get('end'):
                body = body[:bend] + spec['end'] + '\n' + body[bend:]
            if spec.get('begin'):
                body = body[:bpos + 1] + '\n' + spec['begin'] + body[bpos + 1:]
            seg = body[kwpos:bpos]
            if '/*@LOOPSPEC' in seg:
                body = body[:kwpos] + _LOOPSPEC.sub(lambda m: '\n' + txt.rstrip('\n'), seg, count=1) + body[bpos:]
            else:
                body = body[:bpos].rstrip() + '\n' + txt + '        ' + body[bpos:]
            if spec.get('before'):
                body = body[:kwpos] + spec['before'] + '\n' + body[kwpos:]
        # a loop the overlay says nothing about and that is not rule-generated (no default clauses) has NO invariant: arithmetic / index
        # obligations inside or after it cannot be discharged even when the code is safe, so the function's implicit panic-freedom
        # obligation is not decided (driver: undecided instead of a `panic_free` violation)
        if not is_stub:
            for o, (kwpos, bpos, kw) in enumerate(found):
                if o not in loops and '/*@LOOPSPEC' not in body[kwpos:bpos] and 'invariant' not in body[kwpos:bpos]:
                    self.unspec_loops.add(qname)
        # loops the overlay says nothing about: a rule-generated loop carries its own minimal clauses (cursor bound, termination), so code
        # that merely ADDS such an expression still passes the front end; everything else gets nothing
        body = _LOOPSPEC.sub(lambda m: ('\n' + m.group(1).strip()) if m.group(1) else '', body)
        for sp in splices or []:
            (anchor, ins, where) = sp[:3]
            optional = len(sp) > 3 and sp[3] == 'opt'
            first = len(sp) > 3 and sp[3] == 'first'
            if anchor == '@END':
                kk = body.rstrip().rfind('}')
                body = body[:kk] + ins + '\n' + body[kk:]
                continue
            if anchor == '@BEGIN':
                kk = body.index('{')
                body = body[:kk + 1] + '\n' + ins + '\n' + body[kk + 1:]
                continue
            cnt = body.count(anchor)
            if cnt == 0 and optional:
                # proof-bookkeeping splice whose anchor is gone: skip it; the obligations it supported then fail on their own
                continue
            if cnt >= 1 and len(sp) > 3 and sp[3] == 'last':
                kk = body.rindex(anchor)
                if where == 'before':
                    body = body[:kk] + ins + '\n' + body[kk:]
                elif where == 'after':
                    body = body[:kk + len(anchor)] + '\n' + ins + body[kk + len(anchor):]
                else:
                    raise ValueError(where)
                continue
            if cnt >= 1 and first:
                # proof help for the FIRST occurrence only (e.g. the original early `return;`): an exit added later gets no help and
                # must establish the postconditions on its own
                kk = body.index(anchor)
                if where == 'before':
                    body = body[:kk] + ins + '\n' + body[kk:]
                elif where == 'after':
                    body = body[:kk + len(anchor)] + '\n' + ins + body[kk + len(anchor):]
                else:
                    raise ValueError(where)
                continue
            if cnt != 1:
                raise LostAnchor('%s: splice anchor %r occurs %d times' % (qname, anchor, cnt))
            if where == 'before':
                body = body.replace(anchor, ins + '\n' + anchor)
            elif where == 'after':
                body = body.replace(anchor, anchor + '\n' + ins)
            elif where == 'replace':
                body = body.replace(anchor, ins)
            else:
                raise ValueError(where)
        if VACUITY:
            # vacuity probe (thorough tier): `assert(false)` at the normal exit and before every statement-position `return`; the
            # contract is unchanged (callers still see the real contract).  EVERY probe must FAIL: a probe that verifies sits on an
            # exit that no state satisfying the preconditions / loop clauses / callee contracts can reach.
            probe = 'proof { assert(false); }  // @vacuity-probe %s' % qname
            body = re.sub(r'(?m)^(\s*)(return\b)', lambda m: m.group(1) + probe + '\n' + m.group(1) + m.group(2), body)
            ob = body.index('{')
            cb = body.rstrip().rfind('}')
            body = body[:ob] + '{\n    let vac_result = ' + body[ob:cb + 1] + ';\n    ' + probe + '\n    vac_result\n}' + body[cb + 1:]
        return attrs + sig + '\n' + contract + body + '\n'

    def _rewrite(self, text, pat, rep, cnt, name, stats):
        if callable(pat):
            new = pat(text)
            if new == text and cnt:
                raise LostAnchor('%s: structural rewrite %s did not apply' % (name, getattr(pat, '__name__', '?')))
            stats['Rx'] += 1
            return new
        if isinstance(pat, str):
            k = text.count(pat)
            new = text.replace(pat, rep)
        else:
            new, k = pat.subn(rep, text)
        if cnt is not None and k != cnt:
            raise LostAnchor('%s: rewrite pattern %r matched %d times (expected %d)' % (name, getattr(pat, 'pattern', pat)[:70], k, cnt))
        stats['Rx'] += k
        return new

    # ---------- output ----------
    def auto_consts(self):
        """top-level consts of every file a function was taken from, unless already emitted (a refactor that names a magic
        number must not push the file outside the extraction)"""
        out = []
        for rel in self.fn_files:
            src = read_src(rel)
            for it in scan_items(src):
                if it['kind'] == 'const' and it['name'] not in self.const_names and re.match(r'(pub(\([^)]*\))?\s+)?const\s', src[it['sig']:it['sig'] + 40]):
                    try:
                        out.append(self.item(rel, 'const', it['name']))
                    except Exception:
                        pass
        return '\n'.join(out)

    def text(self):
        extra = self.auto_consts()
        if extra:
            self.parts.append('// ---- consts picked up automatically from the source files of the extracted functions ----\n' + extra + '\n')
        head = '\n'.join(self.header_uses) + '\n\nverus! {\n\n'
        return head + '\n'.join(self.parts) + '\n} // verus!\n\nfn main() {}\n'

    def write(self, out_dir=GEN):
        os.makedirs(out_dir, exist_ok=True)
        txt = self.text()
        path = os.path.join(out_dir, self.name + '.rs')
        # atomic: two checks running at the same time generate the same unit (same text) into the same directory; a reader must never see a
        # half-written file
        tmp = '%s.%d.tmp' % (path, os.getpid())
        with open(tmp, 'w') as f:
            f.write(txt)
        os.replace(tmp, path)
        tagmap = {}
        for ln, line in enumerate(txt.split('\n'), 1):
            m = re.search(r'//\s*@ob\s+(.+?)\s*$', line)
            if m:
                tagmap[ln] = m.group(1).split()
        # function line ranges in the generated file
        fns = fn_ranges(txt)
        meta = dict(unit=self.name, file=path, tags=tagmap, functions=fns, provenance=self.prov,
                    stubbed=self.stubbed, overlays=self.fn_overlays, restructured=sorted(self.restructured), imprecise=self.imprecise, unspec_loops=sorted(self.unspec_loops),
                    sha256=hashlib.sha256(txt.encode()).hexdigest())
        mp = os.path.join(out_dir, self.name + '.map.json')
        tmp = '%s.%d.tmp' % (mp, os.getpid())
        with open(tmp, 'w') as f:
            json.dump(meta, f, indent=1)
        os.replace(tmp, mp)
        return path, meta


def fn_ranges(txt):
    """[(qualified name, first line, last line)] for every fn in the verus! block (recursing into impl/mod)."""
    out = []
    vm = txt.find('verus! {')
    ob = txt.index('{', vm)
    cb = match_bracket(txt, ob, '{', '}')

    def rec(s, e, prefix):
        for it in scan_items(txt, s, e):
            if it['kind'] == 'fn':
                out.append([prefix + it['name'], txt.count('\n', 0, it['start']) + 1, txt.count('\n', 0, it['end']) + 1])
            elif it['kind'] in ('impl', 'mod', 'trait') and it['body'] is not None:
                nm = it['name'].split(' for ')[-1]
                rec(it['body'] + 1, it['end'] - 1, prefix + nm + '::')
    rec(ob + 1, cb, '')
    return out


def impl_block(ty, fns, generics=''):
    return 'impl%s %s {\n%s\n}\n' % (generics, ty, '\n'.join(fns))


def mod_block(name, body, uses='use super::*;'):
    return 'pub mod %s {\n%s\n%s\n}\n' % (name, uses, body)
