"""Run Kani harnesses of /verif/kx (real crates, path dependencies on /repo) and classify the results."""
import os
import re
import shutil
import subprocess
import time

VERIF = os.path.dirname(os.path.dirname(os.path.abspath(__file__)))
KX = os.path.join(VERIF, 'kx')
REPO = os.environ.get('VERIF_REPO', '/repo')


def _env():
    e = dict(os.environ)
    e['CARGO_NET_OFFLINE'] = 'true'
    e['PATH'] = e.get('PATH', '') + ':/root/.cargo/bin'
    return e


def prepare():
    """the harness crate resolves with /repo's lock file"""
    src = os.path.join(REPO, 'Cargo.lock')
    dst = os.path.join(KX, 'Cargo.lock')
    if not os.path.exists(dst):
        shutil.copy(src, dst)
    if REPO != '/repo':
        # scratch copy of the repository (mutation self-test): point the path dependencies at it
        txt = open(os.path.join(KX, 'Cargo.toml')).read()
        alt = os.path.join(VERIF, '.cache', 'kx-alt-' + re.sub(r'\W', '_', REPO))
        if os.path.exists(alt):
            shutil.rmtree(alt)
        shutil.copytree(KX, alt, ignore=shutil.ignore_patterns('target'))
        open(os.path.join(alt, 'Cargo.toml'), 'w').write(txt.replace('/repo/', REPO.rstrip('/') + '/'))
        cfg = os.path.join(alt, '.cargo', 'config.toml')
        open(cfg, 'w').write(open(cfg).read().replace('kani-target', 'kani-target-alt'))
        return alt
    return KX


def run(harnesses, jobs=8, timeout=1500, extra=()):
    """returns {harness: dict(status='pass'|'fail'|'undecided', time_s, output, failed_checks)} plus '_cmd', '_wall_s'"""
    cwd = prepare()
    cmd = ['cargo', 'kani', '-Z', 'stubbing', '-j', str(jobs), '--output-format=terse'] + list(extra)
    for h in harnesses:
        cmd += ['--harness', h]
    t0 = time.time()
    try:
        p = subprocess.run(cmd, cwd=cwd, env=_env(), capture_output=True, text=True, timeout=timeout)
        out = p.stdout + '\n' + p.stderr
        rc = p.returncode
        timed_out = False
    except subprocess.TimeoutExpired as e:
        out = (e.stdout or b'').decode(errors='replace') if isinstance(e.stdout, bytes) else (e.stdout or '')
        out += (e.stderr or b'').decode(errors='replace') if isinstance(e.stderr, bytes) else (e.stderr or '')
        rc = -1
        timed_out = True
    wall = time.time() - t0
    res = {h: dict(status='undecided', time_s=None, output='', failed_checks=[], reason='no result block in Kani output') for h in harnesses}
    # compile error?
    if re.search(r'^error(\[E\d+\])?:', out, re.M) and 'VERIFICATION' not in out:
        for h in harnesses:
            res[h]['reason'] = 'harness crate does not compile against the current tree'
            res[h]['output'] = '\n'.join(l for l in out.split('\n') if l.startswith('error') or '-->' in l)[:3000]
        res['_cmd'] = ' '.join(cmd)
        res['_wall_s'] = wall
        res['_raw'] = out[-4000:]
        return res
    cur = {}
    blocks = {}
    thread = None
    for line in out.split('\n'):
        m = re.match(r'Thread (\d+): Checking harness (\S+?)\.\.\.', line)
        if m:
            cur[m.group(1)] = m.group(2)
            thread = None
            continue
        m = re.match(r'Thread (\d+):\s*$', line)
        if m:
            thread = m.group(1)
            blocks.setdefault((thread, cur.get(thread)), [])
            continue
        m = re.match(r'Checking harness (\S+?)\.\.\.', line)
        if m:     # single-threaded format
            cur['0'] = m.group(1)
            thread = '0'
            blocks.setdefault((thread, cur.get(thread)), [])
            continue
        if thread is not None:
            blocks[(thread, cur.get(thread))].append(line)
    for (th, full), lines in blocks.items():
        if full is None:
            continue
        short = full.split('::')[-1]
        key = short if short in res else (full if full in res else None)
        if key is None:
            continue
        txt = '\n'.join(lines)
        r = res[key]
        r['output'] = txt[-6000:]
        m = re.search(r'Verification Time: ([0-9.]+)s', txt)
        if m:
            r['time_s'] = float(m.group(1))
        if 'VERIFICATION:- SUCCESSFUL' in txt:
            unsat_cover = re.search(r'\*\* (\d+) of (\d+) cover properties satisfied', txt)
            if unsat_cover and unsat_cover.group(1) != unsat_cover.group(2):
                r['status'] = 'undecided'
                r['reason'] = 'vacuity guard: a cover property is unsatisfiable'
            else:
                r['status'] = 'pass'
                r['reason'] = ''
        elif 'VERIFICATION:- FAILED' in txt:
            fc = re.findall(r'Failed Checks: (.*)', txt)
            # CBMC's informational float checks (a NaN / inf result is not a panic in Rust; every range assertion of ours
            # fails on a NaN anyway, because all comparisons with NaN are false)
            info_only = [x for x in fc if re.match(r'\s*(NaN on |arithmetic overflow on floating-point)', x)]
            fc = [x for x in fc if x not in info_only]
            r['failed_checks'] = fc
            r['ignored_float_checks'] = info_only
            if not fc and info_only:
                r['status'] = 'pass'
                r['reason'] = 'only informational float checks failed: ' + '; '.join(info_only[:3])
                continue
            if any('unwinding assertion' in x for x in fc) and all(('unwinding assertion' in x) for x in fc):
                r['status'] = 'undecided'
                r['reason'] = 'unwinding bound too small for the current code'
            elif not fc and ('out of memory' in txt.lower() or 'timeout' in txt.lower()):
                r['status'] = 'undecided'
                r['reason'] = 'resource limit'
            else:
                r['status'] = 'fail'
                r['reason'] = '; '.join(fc[:4])
    if timed_out:
        for h in harnesses:
            if res[h]['status'] == 'undecided' and not res[h]['output']:
                res[h]['reason'] = 'Kani timed out after %ds' % timeout
    res['_cmd'] = ' '.join(cmd)
    res['_wall_s'] = wall
    res['_raw'] = out[-3000:] if rc not in (0, 1) else ''
    return res


def concrete_playback(harness, timeout=600):
    """re-run one failing harness asking Kani for a concrete counterexample (unit test text)."""
    cwd = prepare()
    cmd = ['cargo', 'kani', '-Z', 'stubbing', '-Z', 'concrete-playback', '--concrete-playback=print', '--harness', harness]
    try:
        p = subprocess.run(cmd, cwd=cwd, env=_env(), capture_output=True, text=True, timeout=timeout)
    except subprocess.TimeoutExpired:
        return None
    out = p.stdout
    m = re.search(r'(#\[test\]\s*fn kani_concrete_playback_.*?\n\}\n)', out, re.S)
    return m.group(1) if m else None
