"""Shell units (R15): src/sender/{sequence,packet_handler,uplink_recv}.rs and src/net/mod.rs.
async/await erased (one handler invocation = one sequential execution), sockets / clock / channels are
external_body stubs with the contracts printed next to them.  The core world and the registration manager are
present as contract-only stubs."""
import re

from gen import Unit, C, impl_block, mod_block
import world
import reg as regunit
import shell_uplink

S = 'src/sender/'
PH = S + 'packet_handler.rs'
UR = S + 'uplink_recv.rs'
SQ = S + 'sequence.rs'

STUBS = r'''
// ---------- shell I/O stubs (R15) ----------
#[verifier::external_type_specification] #[verifier::external_body] pub struct ExSocketAddr(std::net::SocketAddr);
#[verifier::external_body] pub struct UdpSocket { _p: () }
#[verifier::external_body] pub struct AnyhowError { _p: () }
#[verifier::external_body] pub struct IoError { _p: () }
// anyhow's blanket `From<E: std::error::Error>`: lets `?` on an io::Result inside an anyhow::Result function type-check
impl From<IoError> for AnyhowError { #[verifier::external_body] fn from(e: IoError) -> AnyhowError { unimplemented!() } }
#[verifier::external_body] pub struct InstantFwd { _p: () }
#[verifier::external_body] pub struct BatchUdpSocket { _p: () }
#[verifier::external_body] pub struct ConnIo { _p: () }
#[verifier::external_body] pub struct CriticalWindow { _p: () }
pub type ConnIoMap = HashMap<u64, ConnIo>;
impl ConnIo { #[verifier::external_body] pub fn sock(&self) -> &BatchUdpSocket { unimplemented!() } }
impl CriticalWindow {
    pub uninterp spec fn spec_critical(&self, now: u64) -> bool;
    #[verifier::external_body] pub fn is_critical_now(&self, now: u64) -> (r: bool) ensures r == self.spec_critical(now) { unimplemented!() }
}
// monotonic clock read.  Assumption (epoch clock): 0 < now < 2^62
#[verifier::external_body] pub fn now_ms() -> (r: u64) ensures 0 < r < CLOCK_MAX { unimplemented!() }
impl UdpSocket {
    // tokio::net::UdpSocket::send_to(..).await : result ignored by the caller (`let _ =`)
    #[verifier::external_body] pub fn send_to(&self, pkt: &Vec<u8>, a: std::net::SocketAddr) -> Option<usize> { unimplemented!() }
}
// the latency fast path for SRT ACKs (try_send_to, falling back to the instant-forward channel): I/O only
#[verifier::external_body] pub fn io_ack_fast_path(l: &UdpSocket, f: &InstantFwd, a: Option<std::net::SocketAddr>, p: &Vec<u8>) { }
#[verifier::external_body] pub fn srtla_incoming_new() -> (r: SrtlaIncoming)
    ensures r.read_any, r.forward_to_client.len() == 0, r.ack_numbers.len() == 0, r.nak_numbers.len() == 0, r.srtla_ack_numbers.len() == 0, r.reg1_send is None
{ unimplemented!() }
#[verifier::external_body] pub fn seq_entry_default() -> (r: SequenceTrackingEntry) ensures r.conn_id == 0, r.timestamp_ms == 0, r.seq == 0 { unimplemented!() }
'''

SEQ_SPEC = r'''
pub open spec fn seq_slot(seq: u32) -> int { ((seq as usize) & 16383usize) as int }
pub proof fn lemma_seq_slot(seq: u32)
    ensures 0 <= seq_slot(seq) < 16384,
{ assert(((seq as usize) & 16383usize) < 16384usize) by (bit_vector); }
impl SequenceTrackingEntry {
    // "the sender still remembers which uplink carried the unique copy": same sequence number, not older than 5 s
    pub open spec fn remembers(&self, seq: u32, now: u64) -> bool { self.conn_id != 0 && self.seq == seq && !(sub_sat(now, self.timestamp_ms) > 5000) }
}
impl SequenceTracker {
    pub open spec fn spec_get(&self, seq: u32, now: u64) -> Option<u64> {
        let e = self.entries@[seq_slot(seq)];
        if e.remembers(seq, now) { Some(e.conn_id) } else { None }
    }
}
'''

LINK_SPEC = r'''
// ---------- shell spec layer over a slice of links ----------
pub open spec fn link_unchanged(o: &SrtlaConnection, n: &SrtlaConnection) -> bool { n.same_except_log(o) && n.packet_log@ == o.packet_log@ }
pub open spec fn link_charged(o: &SrtlaConnection, n: &SrtlaConnection, seq: i32) -> bool {
    &&& o.packet_log@.contains_key(seq)
    &&& n.packet_log@ == o.packet_log@.remove(seq)
    &&& n.window == (if o.window - 100 >= 1000 { (o.window - 100) as i32 } else { 1000i32 })
    &&& n.congestion.nak_count == sat_i32(o.congestion.nak_count + 1)
    &&& n.in_flight_packets == o.in_flight_packets - 1
    &&& n.same_except_log_window_cc(o)
}
pub open spec fn distinct_conn_ids(conns: Seq<SrtlaConnection>) -> bool {
    forall|i: int, j: int| 0 <= i < j < conns.len() ==> conns[i].conn_id != conns[j].conn_id
}
pub open spec fn phases_kept(o: Seq<SrtlaConnection>, n: Seq<SrtlaConnection>) -> bool { o.len() == n.len() && forall|j: int| 0 <= j < o.len() ==> (#[trigger] n[j]).phase == o[j].phase && n[j].conn_id == o[j].conn_id }
pub open spec fn links_wf(conns: Seq<SrtlaConnection>) -> bool {
    forall|i: int| 0 <= i < conns.len() ==> (#[trigger] conns[i]).wf_count() && win_ok(conns[i].window) && conns[i].above_hw()
}
'''


def add_seqtrack(u):
    u.add(u.consts(SQ))
    u.add(u.item(SQ, 'struct', 'SequenceTrackingEntry'))
    u.add(u.item(SQ, 'struct', 'SequenceTracker'))
    u.add(SEQ_SPEC)
    u.add(impl_block('SequenceTrackingEntry', [
        u.fn(SQ, 'is_expired', impl='SequenceTrackingEntry', sub='seqtrack', ret='r', ensures=[
            C('C05.seqtrack.is_expired.older_than_5s', 'r == (sub_sat(current_time_ms, self.timestamp_ms) > 5000)')]),
        u.fn(SQ, 'is_valid', impl='SequenceTrackingEntry', sub='seqtrack', ret='r', ensures=[
            C('C05.seqtrack.is_valid.same_seq_and_within_5s', 'r == self.remembers(seq, current_time_ms)')]),
    ]))
    u.add(impl_block('SequenceTracker', [
        u.fn(SQ, 'new', impl='SequenceTracker', sub='seqtrack', ret='r', props=(),
             post_rewrite=[('SequenceTrackingEntry::default()', 'seq_entry_default()', 1)],
             ensures=[C('C05.seqtrack.new.remembers_nothing', 'forall|i: int| 0 <= i < 16384 ==> (#[trigger] r.entries@[i]).conn_id == 0 && r.entries@[i].timestamp_ms == 0 && r.entries@[i].seq == 0'),
                      'r.count == 0']),
        u.fn(SQ, 'insert', impl='SequenceTracker', sub='seqtrack', props=(), ensures=[
            C('C05+C10.seqtrack.insert.overwrites_exactly_one_slot', '''final(self).entries@[seq_slot(seq)].conn_id == conn_id && final(self).entries@[seq_slot(seq)].timestamp_ms == timestamp_ms
            && final(self).entries@[seq_slot(seq)].seq == seq
            && (forall|i: int| 0 <= i < 16384 && i != seq_slot(seq) ==> #[trigger] final(self).entries@[i] == old(self).entries@[i])'''),
        ], splices=[('let idx = (seq as usize) & SEQ_TRACKING_MASK;', 'proof { lemma_seq_slot(seq); }', 'after')]),
        u.fn(SQ, 'get', impl='SequenceTracker', sub='seqtrack', ret='r', props=('C09',), ensures=[
            C('C05.seqtrack.get.remembers_iff_same_seq_and_within_5s', 'r == self.spec_get(seq, current_time_ms)'),
        ], splices=[('let idx = (seq as usize) & SEQ_TRACKING_MASK;', 'proof { lemma_seq_slot(seq); }', 'after')]),
        u.fn(SQ, 'remove_connection', impl='SequenceTracker', sub='seqtrack', props=(),
             post_rewrite=[('SequenceTrackingEntry::default()', 'seq_entry_default()', 1)],
             ensures=[
                 C('C05+C19.seqtrack.remove_connection.purges_exactly_that_link', '''forall|i: int| 0 <= i < 16384 ==>
                (old(self).entries@[i].conn_id == conn_id ==> (#[trigger] final(self).entries@[i]).conn_id == 0 && final(self).entries@[i].timestamp_ms == 0 && final(self).entries@[i].seq == 0)
                && (old(self).entries@[i].conn_id != conn_id ==> final(self).entries@[i] == old(self).entries@[i])'''),
             ],
             loops={0: dict(inv=[
                 'entry_nx <= 16384',
                 C('C05+C19.seqtrack.remove_connection.purges_exactly_that_link', '''forall|i: int| 0 <= i < entry_nx ==>
                    (old(self).entries@[i].conn_id == conn_id ==> (#[trigger] self.entries@[i]).conn_id == 0 && self.entries@[i].timestamp_ms == 0 && self.entries@[i].seq == 0)
                    && (old(self).entries@[i].conn_id != conn_id ==> self.entries@[i] == old(self).entries@[i])'''),
                 'forall|i: int| entry_nx <= i < 16384 ==> #[trigger] self.entries@[i] == old(self).entries@[i]',
             ], dec='16384 - entry_nx')}),
    ]))


def position_helper(name, pred):
    return '''
// R12: helper generated from `connections.iter().position(|c| %s)`; predicate text copied from the source
pub fn %s(connections: &[SrtlaConnection], conn_id: u64) -> (r: Option<usize>)
    ensures r is Some ==> r.unwrap() < connections.len() && connections[r.unwrap() as int].conn_id == conn_id
            && forall|j: int| 0 <= j < r.unwrap() ==> (#[trigger] connections[j]).conn_id != conn_id,
        r is None ==> forall|j: int| 0 <= j < connections.len() ==> (#[trigger] connections[j]).conn_id != conn_id,
{
    let mut c_nx: usize = 0;
    while c_nx < connections.len()
        invariant c_nx <= connections.len(), forall|j: int| 0 <= j < c_nx ==> (#[trigger] connections[j]).conn_id != conn_id,
        decreases connections.len() - c_nx,
    {
        let c = &connections[c_nx]; c_nx += 1;
        if %s { return Some(c_nx - 1); }
    }
    None
}
''' % (pred, name, pred)


def add_attribute_nak(u):
    from gen import read_src, LostAnchor
    src = read_src(PH)
    m = re.search(r'connections\.iter\(\)\.position\(\|c\| (c\.conn_id == conn_id)\)', src)
    if not m:
        raise LostAnchor('attribute_nak: position closure')
    u.add(position_helper('attribute_nak_position', m.group(1)))
    TR = 'seq_tracker.spec_get(nak, current_time_ms)'
    u.add(ATTR_LEMMA)
    u.add(u.fn(PH, 'attribute_nak', sub='events', ret='r', props=('C09',),
               pre_rewrite=[('connections.iter().position(|c| c.conn_id == conn_id)', 'attribute_nak_position(connections, conn_id)', 1)],
               requires=['distinct_conn_ids(old(connections)@)', 'links_wf(old(connections)@)'],
               ensures=[
                   'final(connections).len() == old(connections).len()', 'links_wf(final(connections)@)',
                   C('C05.events.attribute_nak.at_most_one_link_charged_and_only_a_holder', '''r is Some ==> r.unwrap() < old(connections).len()
            && link_charged(&old(connections)[r.unwrap() as int], &final(connections)[r.unwrap() as int], nak as i32)
            && (forall|j: int| 0 <= j < old(connections).len() && j != r.unwrap() ==> link_unchanged(&old(connections)[j], &#[trigger] final(connections)[j]))'''),
                   C('C05.events.attribute_nak.unknown_nak_changes_nothing', 'r is None ==> forall|j: int| 0 <= j < old(connections).len() ==> link_unchanged(&old(connections)[j], &#[trigger] final(connections)[j])'),
                   C('C05.events.attribute_nak.none_means_nobody_held_it_or_tracker_pointed_elsewhere', '''r is None && %s is None ==>
            forall|j: int| 0 <= j < old(connections).len() ==> !(#[trigger] old(connections)[j]).packet_log@.contains_key(nak as i32)''' % TR),
                   C('C05.events.attribute_nak.remembered_carrier_is_the_only_chargeable_link', '''forall|p: int| 0 <= p < old(connections).len() && %s == Some((#[trigger] old(connections)[p]).conn_id) ==>
            (r == Some(p as usize) || r is None)
            && (forall|j: int| 0 <= j < old(connections).len() && j != p ==> link_unchanged(&old(connections)[j], &#[trigger] final(connections)[j]))''' % TR),
                   C('C05.events.attribute_nak.contract_as_one_relation', 'attr_post(old(connections)@, final(connections)@, %s, nak as i32, r)' % TR),
               ],
               loops={0: dict(inv=[
                   'i_nx <= connections.len()', 'connections.len() == old(connections).len()', 'links_wf(connections@)',
                   C('C05.events.attribute_nak.at_most_one_link_charged_and_only_a_holder', 'forall|j: int| 0 <= j < connections.len() ==> link_unchanged(&old(connections)[j], &#[trigger] connections[j])'),
                   C('C05.events.attribute_nak.none_means_nobody_held_it_or_tracker_pointed_elsewhere', 'forall|j: int| 0 <= j < i_nx ==> !(#[trigger] old(connections)[j]).packet_log@.contains_key(nak as i32)'),
                   C('C05.events.attribute_nak.remembered_carrier_is_the_only_chargeable_link', 'forall|p: int| 0 <= p < connections.len() ==> %s != Some((#[trigger] old(connections)[p]).conn_id)' % TR),
               ], dec='connections.len() - i_nx')}))


ATTR_LEMMA = r'''
// ---------- C05 [L]: attribute_nak's contract as ONE relation, and what two calls in a row amount to ----------
pub open spec fn attr_post(o: Seq<SrtlaConnection>, n: Seq<SrtlaConnection>, tr: Option<u64>, nak: i32, r: Option<usize>) -> bool {
    &&& n.len() == o.len()
    &&& (r is Some ==> r.unwrap() < o.len() && link_charged(&o[r.unwrap() as int], &n[r.unwrap() as int], nak)
            && (forall|j: int| 0 <= j < o.len() && j != r.unwrap() ==> link_unchanged(&o[j], &#[trigger] n[j])))
    &&& (r is None ==> forall|j: int| 0 <= j < o.len() ==> link_unchanged(&o[j], &#[trigger] n[j]))
    &&& (forall|p: int| 0 <= p < o.len() && tr == Some((#[trigger] o[p]).conn_id) ==> (r == Some(p as usize) || r is None)
            && (forall|j: int| 0 <= j < o.len() && j != p ==> link_unchanged(&o[j], &#[trigger] n[j])))
}
// "a repeated NAK changes nothing": while the sender still remembers the carrier (same tracker answer), the second NAK for a sequence
// that was charged by the first one charges nobody and leaves every link as it was
pub proof fn lemma_repeated_nak_is_the_identity(s0: Seq<SrtlaConnection>, s1: Seq<SrtlaConnection>, s2: Seq<SrtlaConnection>, tr: Option<u64>, nak: i32,
                                                 r1: Option<usize>, r2: Option<usize>, p: int)
    requires
        attr_post(s0, s1, tr, nak, r1), attr_post(s1, s2, tr, nak, r2),
        0 <= p < s0.len(), tr == Some(s0[p].conn_id), r1 is Some,
    ensures
        r1 == Some(p as usize),
        r2 is None,  // @ob C05.events.lemma.a_repeated_nak_charges_nobody
        forall|j: int| 0 <= j < s1.len() ==> link_unchanged(&s1[j], &#[trigger] s2[j]),  // @ob C05.events.lemma.a_repeated_nak_changes_nothing
{
    assert(r1 == Some(p as usize));
    assert(link_charged(&s0[p], &s1[p], nak));
    assert(!s1[p].packet_log@.contains_key(nak));
    assert(s1[p].conn_id == s0[p].conn_id);
    assert(tr == Some(s1[p].conn_id));
    if r2 is Some {
        assert(r2 == Some(p as usize));
        assert(link_charged(&s1[p], &s2[p], nak));
    }
}
'''


# ------------------------------------------------------------------ process_connection_events (C02, C05, C06, C09, C10)
EV_SPEC = r'''
pub open spec fn keys_subset(o: Seq<SrtlaConnection>, n: Seq<SrtlaConnection>) -> bool {
    o.len() == n.len() && forall|j: int, k: i32| 0 <= j < n.len() && (#[trigger] n[j].packet_log@.contains_key(k)) ==> o[j].packet_log@.contains_key(k)
}
pub open spec fn all_above(c: Seq<SrtlaConnection>, a: i32) -> bool {
    forall|j: int, k: i32| 0 <= j < c.len() && (#[trigger] c[j].packet_log@.contains_key(k)) ==> k > a
}
pub open spec fn log_same(o: &SrtlaConnection, n: &SrtlaConnection) -> bool { n.packet_log@ =~= o.packet_log@ }
pub open spec fn log_retired(o: &SrtlaConnection, n: &SrtlaConnection, seq: i32) -> bool {
    o.packet_log@.contains_key(seq) && n.packet_log@ =~= o.packet_log@.remove(seq)
}
// C02: a per-packet SRTLA ACK retires the packet on ONE link: the arrival link if it holds it, otherwise the first other holder
pub open spec fn srtla_ack_retired_on_one_link(o: Seq<SrtlaConnection>, n: Seq<SrtlaConnection>, idx: int, seq: i32) -> bool {
    &&& o.len() == n.len()
    &&& (o[idx].packet_log@.contains_key(seq) ==> log_retired(&o[idx], &n[idx], seq) && forall|j: int| 0 <= j < o.len() && j != idx ==> log_same(&o[j], &#[trigger] n[j]))
    &&& (!o[idx].packet_log@.contains_key(seq) ==> log_same(&o[idx], &n[idx])
            && (forall|j: int| 0 <= j < o.len() && j != idx ==> (log_same(&o[j], &#[trigger] n[j]) || log_retired(&o[j], &n[j], seq)))
            && (forall|j1: int, j2: int| 0 <= j1 < j2 < o.len() ==> !(log_retired(&o[j1], &#[trigger] n[j1], seq) && log_retired(&o[j2], &#[trigger] n[j2], seq)))
            && ((exists|j: int| 0 <= j < o.len() && (#[trigger] o[j]).packet_log@.contains_key(seq)) ==> exists|j: int| 0 <= j < o.len() && log_retired(&o[j], &#[trigger] n[j], seq)))
}
pub open spec fn plus_one_capped(o: &SrtlaConnection) -> i32 {
    if o.connected && o.last_received is Some { if o.window + 1 <= 60000 { (o.window + 1) as i32 } else { 60000i32 } } else { o.window }
}
pub open spec fn vec_views(v: Seq<Vec<u8>>) -> Seq<Seq<u8>> { v.map(|i: int, x: Vec<u8>| x@) }
'''

_EV_BASE = ['connections.len() == old(connections).len()', 'idx < connections.len()', 'links_wf(connections@)', 'distinct_conn_ids(connections@)', '0 < current_time_ms < CLOCK_MAX',
            'phases_kept(old(connections)@, connections@)']


def add_events(u):
    u.add(EV_SPEC)
    SA = '*srtla_ack as i32'
    u.add(u.fn(PH, 'process_connection_events', sub='events', ret='r', erase_async=True, props=('C09',),
               post_rewrite=[('-> Result<()>', '-> Result<(), AnyhowError>', 1), 
                             ('attribute_nak(connections, seq_tracker, *nak, current_time_ms);', 'let nak_res = attribute_nak(connections, seq_tracker, *nak, current_time_ms);', 1),
                             # C09 at EVERY early exit: nothing that had to be forwarded is dropped (the arrival link may have vanished: idx out of range)
                             (re.compile(r'return Ok\(\(\)\);'), '''{ proof {
            assert(last_client_addr is Some && idx < connections.len() ==> wire =~= vec_views(incoming.forward_to_client@));  // @ob C09.events.forwarded_datagrams_reach_the_client_once_in_order
        } return Ok(()); }''', None)],
               requires=['links_wf(old(connections)@)', 'distinct_conn_ids(old(connections)@)'],
               ensures=['final(connections).len() == old(connections).len()', 'links_wf(final(connections)@)', 'distinct_conn_ids(final(connections)@)',
                        C('C12.events.acks_and_naks_never_change_a_link_phase_or_identity', 'phases_kept(old(connections)@, final(connections)@)')],
               loops={
                   0: dict(inv=_EV_BASE + ['ack_nx <= incoming.ack_numbers.len()',
                                           C('C02.events.cumulative_ack_reaches_every_link', 'forall|a: int| 0 <= a < ack_nx && incoming.ack_numbers[a] as i32 != i32::MIN ==> all_above(connections@, #[trigger] incoming.ack_numbers[a] as i32)')],
                           dec='incoming.ack_numbers.len() - ack_nx'),
                   1: dict(inv=_EV_BASE + ['c_nx <= connections.len()', 'ack_ix < incoming.ack_numbers.len()', '*ack == incoming.ack_numbers[ack_ix as int]', 'ack_nx == ack_ix + 1',
                                           'keys_subset(in0, connections@)',
                                           C('C02.events.cumulative_ack_reaches_every_link', 'forall|a: int| 0 <= a < ack_ix && incoming.ack_numbers[a] as i32 != i32::MIN ==> all_above(in0, #[trigger] incoming.ack_numbers[a] as i32)'),
                                           C('C02.events.cumulative_ack_reaches_every_link', '*ack as i32 != i32::MIN ==> forall|j: int, k: i32| 0 <= j < c_nx && (#[trigger] connections[j].packet_log@.contains_key(k)) ==> k > *ack as i32')],
                           dec='connections.len() - c_nx',
                           # explicit step for the (untagged) key-subset clause: it was proved by luck before and flipped when an unrelated spec function was added
                           end="""            proof {
                assert(keys_subset(in0, c_all));
                assert forall|j: int, k: i32| 0 <= j < connections.len() && (#[trigger] connections[j].packet_log@.contains_key(k)) implies in0[j].packet_log@.contains_key(k) by {
                    if j == c_ix as int { assert(c_all[j].packet_log@.contains_key(k)); } else { assert(connections[j] == c_all[j]); }
                }
                if *ack as i32 != i32::MIN {
                    assert(c_all[c_ix as int].above_hw());
                    assert forall|j: int, k: i32| 0 <= j < c_nx && (#[trigger] connections[j].packet_log@.contains_key(k)) implies k > *ack as i32 by {
                        if j != c_ix as int { assert(connections[j] == c_all[j]); }
                    }
                }
            }"""),
                   2: dict(inv=_EV_BASE + ['srtla_ack_nx <= incoming.srtla_ack_numbers.len()', 'keys_subset(after_acks, connections@)'],
                           dec='incoming.srtla_ack_numbers.len() - srtla_ack_nx'),
                   3: dict(inv_eb=['retired is None',
                                   C('C02.events.srtla_ack_retires_on_arrival_link_else_one_other_holder', 'forall|j: int| 0 <= j < connections.len() ==> log_same(&mid[j], &#[trigger] connections[j])'),
                                   'forall|j: int| 0 <= j < i_nx && j != idx ==> !(#[trigger] mid[j]).packet_log@.contains_key(%s)' % SA],
                           inv=_EV_BASE + ['i_nx <= connections.len()', 'mid.len() == connections.len()', C('C02.events.srtla_ack_retires_on_arrival_link_else_one_other_holder', '!found_on_arrival')],
                           ens=['links_wf(connections@)', 'distinct_conn_ids(connections@)', 'connections.len() == old(connections).len()',
                                'retired is None ==> (forall|j: int| 0 <= j < connections.len() ==> log_same(&mid[j], &#[trigger] connections[j]))'
                                ' && (forall|j: int| 0 <= j < connections.len() && j != idx ==> !(#[trigger] mid[j]).packet_log@.contains_key(%s))' % SA,
                                'retired is Some ==> 0 <= retired.unwrap() < connections.len() && retired.unwrap() != idx && log_retired(&mid[retired.unwrap()], &connections[retired.unwrap()], %s)'
                                ' && (forall|j: int| 0 <= j < connections.len() && j != retired.unwrap() ==> log_same(&mid[j], &#[trigger] connections[j]))'
                                ' && (forall|j: int| 0 <= j < retired.unwrap() && j != idx ==> !(#[trigger] mid[j]).packet_log@.contains_key(%s))' % (SA, SA)],
                           dec='connections.len() - i_nx'),
                   4: dict(inv=_EV_BASE + ['c_nx <= connections.len()', 'pre_global.len() == connections.len()',
                                           C('C06+C10.events.global_plus_one_on_every_link_once_per_srtla_ack', 'forall|j: int| 0 <= j < c_nx ==> (#[trigger] connections[j]).window == plus_one_capped(&pre_global[j]) && log_same(&pre_global[j], &connections[j])'),
                                           'forall|j: int| c_nx <= j < connections.len() ==> #[trigger] connections[j] == pre_global[j]'],
                           dec='connections.len() - c_nx'),
                   5: dict(inv=_EV_BASE + ['nak_nx <= incoming.nak_numbers.len()', 'keys_subset(after_acks, connections@)',
                                           # a NAK either went through the one-charge step below, or (a path that skips it) left every link as it was
                                           C('C05.events.each_nak_charges_at_most_one_link',
                                             'nak_step_ok || (nak_begin.len() == connections.len() && forall|j: int| 0 <= j < nak_begin.len() ==> link_unchanged(&nak_begin[j], &#[trigger] connections[j]))')],
                           dec='incoming.nak_numbers.len() - nak_nx',
                           before='    let ghost mut nak_step_ok: bool = true;\n    let ghost mut nak_begin: Seq<SrtlaConnection> = connections@;',
                           begin='        proof { nak_step_ok = false; nak_begin = connections@; }',
                           end='        proof { nak_step_ok = true; }'),
                   6: dict(inv=['pkt_nx <= incoming.forward_to_client.len()',
                                C('C09.events.forwarded_datagrams_reach_the_client_once_in_order', 'wire =~= vec_views(incoming.forward_to_client@).subrange(0, pkt_nx as int)')],
                           dec='incoming.forward_to_client.len() - pkt_nx'),
               },
               splices=[
                   ('let mut c_nx: usize = 0;', 'let ghost in0 = connections@;', 'before', 'first'),
                   ('let mut srtla_ack_nx: usize = 0;', 'let ghost after_acks = connections@;', 'before'),
                   ('let found_on_arrival =', 'let ghost it0 = connections@;', 'before'),
                   ('connections[idx].handle_srtla_ack_specific(*srtla_ack as i32, classic, current_time_ms);',
                    'let ghost mid = connections@;\n        let ghost mut retired: Option<int> = None;', 'after'),
                   ('break;', 'proof { retired = Some(i as int); }', 'before', 'opt'),
                   ('        }\n        let ghost c_entry = connections@;\n        let mut c_nx: usize = 0;', '''        }
        proof {
            let sa = *srtla_ack as i32;
            let ix = idx as int;
            assert(forall|j: int| 0 <= j < it0.len() && j != ix ==> #[trigger] mid[j] == it0[j]);
            if found_on_arrival {
                assert(connections@ == mid);
                assert(log_retired(&it0[ix], &connections[ix], sa));
                assert(forall|j: int| 0 <= j < it0.len() && j != ix ==> log_same(&it0[j], &#[trigger] connections[j]));
            } else {
                assert(!it0[ix].packet_log@.contains_key(sa));
                assert(log_same(&it0[ix], &mid[ix]));
                if retired is Some {
                    let b = retired.unwrap();
                    assert(log_retired(&it0[b], &connections[b], sa));
                    assert forall|j: int| 0 <= j < it0.len() && j != b implies log_same(&it0[j], &#[trigger] connections[j]) by {
                        if j != ix { assert(mid[j] == it0[j]); }
                        assert(log_same(&mid[j], &connections[j]));
                    }
                    assert(forall|j1: int, j2: int| 0 <= j1 < j2 < it0.len() ==> !(log_retired(&it0[j1], &#[trigger] connections[j1], sa) && log_retired(&it0[j2], &#[trigger] connections[j2], sa))) by {
                        assert forall|j1: int, j2: int| 0 <= j1 < j2 < it0.len() implies !(log_retired(&it0[j1], &#[trigger] connections[j1], sa) && log_retired(&it0[j2], &#[trigger] connections[j2], sa)) by {
                            if j1 != b { assert(log_same(&it0[j1], &connections[j1])); assert(!log_retired(&it0[j1], &connections[j1], sa)) by {
                                if it0[j1].packet_log@.contains_key(sa) { assert(connections[j1].packet_log@.contains_key(sa)); assert(!it0[j1].packet_log@.remove(sa).contains_key(sa)); } } }
                            if j2 != b { assert(log_same(&it0[j2], &connections[j2])); assert(!log_retired(&it0[j2], &connections[j2], sa)) by {
                                if it0[j2].packet_log@.contains_key(sa) { assert(connections[j2].packet_log@.contains_key(sa)); assert(!it0[j2].packet_log@.remove(sa).contains_key(sa)); } } }
                        }
                    }
                } else {
                    assert forall|j: int| 0 <= j < it0.len() implies log_same(&it0[j], &#[trigger] connections[j]) by {
                        if j != ix { assert(mid[j] == it0[j]); }
                        assert(log_same(&mid[j], &connections[j]));
                    }
                    assert forall|j: int| 0 <= j < it0.len() implies !(#[trigger] it0[j]).packet_log@.contains_key(sa) by {
                        if j != ix { assert(mid[j] == it0[j]); assert(!mid[j].packet_log@.contains_key(sa)); }
                    }
                    assert(forall|j1: int, j2: int| 0 <= j1 < j2 < it0.len() ==> !(log_retired(&it0[j1], &#[trigger] connections[j1], sa) && log_retired(&it0[j2], &#[trigger] connections[j2], sa)));
                }
            }
            assert(srtla_ack_retired_on_one_link(it0, connections@, idx as int, *srtla_ack as i32));  // @ob C02.events.srtla_ack_retires_on_arrival_link_else_one_other_holder
            assert(keys_subset(it0, connections@));
        }
        let ghost pre_global = connections@;
        let ghost c_entry = connections@;
        let mut c_nx: usize = 0;''', 'replace'),
                   ('let nak_res = attribute_nak(connections, seq_tracker, *nak, current_time_ms);', 'let ghost n0 = nak_begin;\n        proof { assert(connections@ == nak_begin); }  // @ob C05.events.each_nak_charges_at_most_one_link', 'before'),
                   ('let nak_res = attribute_nak(connections, seq_tracker, *nak, current_time_ms);', '''proof {
            assert((nak_res is None ==> forall|j: int| 0 <= j < n0.len() ==> link_unchanged(&n0[j], &#[trigger] connections[j]))  // @ob C05.events.each_nak_charges_at_most_one_link
                && (nak_res is Some ==> link_charged(&n0[nak_res.unwrap() as int], &connections[nak_res.unwrap() as int], *nak as i32)
                    && forall|j: int| 0 <= j < n0.len() && j != nak_res.unwrap() ==> link_unchanged(&n0[j], &#[trigger] connections[j])));
            assert(keys_subset(n0, connections@));
        }''', 'after'),
                   ('@BEGIN', '    let ghost mut wire: Seq<Seq<u8>> = Seq::empty();', 'after'),
                   ('if let Some(client) = last_client_addr {', '''proof {
        assert(forall|a: int| 0 <= a < incoming.ack_numbers.len() && incoming.ack_numbers[a] as i32 != i32::MIN ==> all_above(connections@, #[trigger] incoming.ack_numbers[a] as i32));  // @ob C02.events.cumulative_ack_reaches_every_link
    }''', 'before'),
                   ('let _ = local_listener.send_to(pkt, client);', 'proof { wire = wire.push(pkt@); }', 'after'),
                   ('    }\n    Ok(())', '''    }
    proof {
        assert(last_client_addr is Some ==> wire =~= vec_views(incoming.forward_to_client@));  // @ob C09.events.forwarded_datagrams_reach_the_client_once_in_order
        assert(last_client_addr is None ==> wire.len() == 0);  // @ob C09.events.nothing_sent_before_a_client_is_known
    }
    Ok(())''', 'replace'),
               ]))


def build_events():
    u = world.build('events', active=['events', 'seqtrack'])
    regunit.add_reg(u)
    u.use('use std::net::SocketAddr;')
    u.add(u.item('crates/srtla-core/src/connection/incoming.rs', 'struct', 'SrtlaIncoming'))
    u.add(STUBS)
    add_seqtrack(u)
    u.add(LINK_SPEC)
    add_attribute_nak(u)
    add_events(u)
    shell_uplink.add_uplink(u)
    return u


def build():
    return build_events()
