"""Unit `ccglue` (C16): LinkCcController::tick_all -- the glue that feeds every link's congestion controller from the link's own signals and
garbage-collects the controllers of links that disappeared.  The controller itself (LinkCongestionState: floats, EWMAs) is verified by Kani
on the real code; here it is an opaque type whose methods are trusted stubs, and what is proved is WHAT tick_all feeds it and WHICH entries
survive.  Rewrites: `entry(k).or_default()` (R19g), `HashMap::retain` (R19e), cursor loop (R7)."""
import re

from gen import C
import rules
import world

LC = 'crates/srtla-core/src/selection/link_cc.rs'

STUBS = r'''
// ---------- C16 glue stubs ----------
#[verifier::external_body] pub struct LinkCongestionState { _p: () }
#[verifier::external_body] pub struct LinkCcSnapshot { _p: () }
impl Default for LinkCongestionState { #[verifier::external_body] fn default() -> Self { unimplemented!() } }
impl LinkCongestionState {
    #[verifier::external_body] pub fn record_rtt(&mut self, rtt_ms: f64, now_ms: u64) { unimplemented!() }
    #[verifier::external_body] pub fn observe_traffic(&mut self, bytes_sent_total: u64, nak_total: i32, now_ms: u64) { unimplemented!() }
    #[verifier::external_body] pub fn tick(&mut self, observed_bps: u64, now_ms: u64) { unimplemented!() }
    #[verifier::external_body] pub fn snapshot(&self) -> LinkCcSnapshot { unimplemented!() }
}
pub struct LinkCcController { pub per_conn: HashMap<u64, LinkCongestionState> }
#[verifier::external_body] pub fn hashmap_keys_u64<V>(m: &HashMap<u64, V>) -> (r: Vec<u64>)
    ensures forall|k: u64| r@.contains(k) == #[trigger] m@.contains_key(k), forall|a: int, b: int| 0 <= a < b < r.len() ==> r[a] != r[b],
{ m.keys().copied().collect() }
#[verifier::external_body] pub fn hashmap_get_mut_u64<'a, V>(m: &'a mut HashMap<u64, V>, k: u64) -> (r: Option<&'a mut V>)
    ensures (r is Some) == old(m)@.contains_key(k), final(m)@.dom() == old(m)@.dom(),
{ m.get_mut(&k) }
#[verifier::external_body] pub fn snapshot_map_new(n: usize) -> (r: HashMap<u64, LinkCcSnapshot>) ensures r@.dom() == Set::<u64>::empty() { HashMap::with_capacity(n) }
pub open spec fn has_conn_id(s: Seq<SrtlaConnection>, n: int, id: u64) -> bool { exists|j: int| 0 <= j < n && j < s.len() && (#[trigger] s[j]).conn_id == id }
'''


def build():
    u = world.build('ccglue', active=['ccglue'])
    u.add(STUBS)
    u.add('impl LinkCcController {\n' + u.fn(LC, 'tick_all', impl='LinkCcController', sub='ccglue', ret='r',
          pre_rewrite=[('let mut alive: HashMap<u64, LinkCcSnapshot> = HashMap::with_capacity(connections.len());', 'let mut alive: HashMap<u64, LinkCcSnapshot> = snapshot_map_new(connections.len());', 1),
                       (lambda t: rules.r19_entry_or_default_let(t)[0], None, 1), (lambda t: rules.r19_hashmap_retain(t)[0], None, 1),
                       ('conn.bitrate.current_bitrate_bps.max(0.0) as u64', 'f64_to_u64(conn.bitrate.current_bitrate_bps.max(0.0))', 1)],
          ensures=[
              C('C16.ccglue.tick_all.controllers_of_vanished_links_are_dropped', 'forall|k: u64| #[trigger] final(self).per_conn@.contains_key(k) ==> has_conn_id(connections@, connections@.len() as int, k)'),
              C('C16.ccglue.tick_all.every_link_has_a_controller_and_a_snapshot',
                'forall|j: int| 0 <= j < connections.len() ==> final(self).per_conn@.contains_key((#[trigger] connections[j]).conn_id) && r@.contains_key(connections[j].conn_id)'),
          ],
          loops={
              'entry.tick(': dict(inv=['conn_nx <= connections.len()',
                                       'forall|k: u64| #[trigger] alive@.contains_key(k) == has_conn_id(connections@, conn_nx as int, k)',
                                       C('C16.ccglue.tick_all.every_link_has_a_controller_and_a_snapshot',
                                         'forall|j: int| 0 <= j < conn_nx ==> self.per_conn@.contains_key((#[trigger] connections[j]).conn_id)')],
                                  dec='connections.len() - conn_nx',
                                  end="""        proof {
            assert forall|k: u64| #[trigger] alive@.contains_key(k) == has_conn_id(connections@, conn_nx as int, k) by {
                if has_conn_id(connections@, conn_nx as int - 1, k) { let j = choose|j: int| 0 <= j < conn_nx - 1 && j < connections@.len() && (#[trigger] connections@[j]).conn_id == k; assert(connections@[j].conn_id == k); }
                if connections@[conn_nx as int - 1].conn_id == k { assert(has_conn_id(connections@, conn_nx as int, k)); }
            }
        }"""),
              'per_conn.remove(': dict(inv=['id_nx <= per_conn_keys.len()', 'forall|k: u64| #[trigger] alive@.contains_key(k) == has_conn_id(connections@, connections@.len() as int, k)',
                                            'forall|k: u64| per_conn_keys@.contains(k) == #[trigger] pc_mid.contains_key(k)',
                                            'forall|a: int, b: int| 0 <= a < b < per_conn_keys.len() ==> per_conn_keys[a] != per_conn_keys[b]',
                                            'forall|k: u64| #[trigger] self.per_conn@.contains_key(k) ==> pc_mid.contains_key(k)',
                                            C('C16.ccglue.tick_all.controllers_of_vanished_links_are_dropped',
                                              'forall|i: int| 0 <= i < id_nx ==> (self.per_conn@.contains_key(#[trigger] per_conn_keys[i]) == alive@.contains_key(per_conn_keys[i]))'),
                                            'forall|i: int| id_nx <= i < per_conn_keys.len() ==> self.per_conn@.contains_key(#[trigger] per_conn_keys[i])'],
                                       dec='per_conn_keys.len() - id_nx',
                                       before='    let ghost pc_mid = self.per_conn@;',
                                       after="""    proof {
        assert forall|k: u64| #[trigger] self.per_conn@.contains_key(k) implies has_conn_id(connections@, connections@.len() as int, k) by {
            assert(pc_mid.contains_key(k)); assert(per_conn_keys@.contains(k));
            let i = choose|i: int| 0 <= i < per_conn_keys@.len() && per_conn_keys@[i] == k;
            assert(self.per_conn@.contains_key(per_conn_keys[i]) == alive@.contains_key(per_conn_keys[i]));
        }
        assert forall|j: int| 0 <= j < connections.len() implies self.per_conn@.contains_key((#[trigger] connections[j]).conn_id) by {
            let k = connections[j].conn_id;
            assert(has_conn_id(connections@, connections@.len() as int, k));
            assert(pc_mid.contains_key(k)); assert(per_conn_keys@.contains(k));
            let i = choose|i: int| 0 <= i < per_conn_keys@.len() && per_conn_keys@[i] == k;
            assert(self.per_conn@.contains_key(per_conn_keys[i]) == alive@.contains_key(per_conn_keys[i]));
        }
    }"""),
          },
          splices=[('entry.record_rtt(rtt_ms, now_ms);', '''proof {
                assert(rtt_ms == spec_srtt(conn.rtt.kalman_rtt.x));  // @ob C16.ccglue.tick_all.the_rtt_fed_to_a_controller_is_the_links_own_smoothed_rtt
                assert(fgt(rtt_ms, 0.0));  // @ob C16.ccglue.tick_all.no_rtt_sample_is_fed_while_the_link_has_none
            }''', 'before')]) + '}\n')
    return u
