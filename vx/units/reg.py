"""Unit `reg`: registration state machine (C07).  Real bodies of registration/mod.rs; the core world is
present as contract-only stubs (active = {})."""
import re

from gen import Unit, C, impl_block, mod_block
import world

K = 'crates/srtla-core/src/'
R = K + 'registration/mod.rs'
PB = K + 'registration/probing.rs'

SPEC = r'''
// ---------- registration spec layer ----------
pub open spec fn spec_reg_packet(ty: u16, id: Seq<u8>) -> Seq<u8> {
    seq![(ty >> 8) as u8, (ty & 0xff) as u8] + id
}
// builders of srtla-protocol: layout proved by Kani on the real crate (kx: reg_packets_layout): 258 bytes,
// type in bytes 0..2, the id verbatim in bytes 2..258
#[verifier::external_body] pub fn create_reg1_packet(id: &[u8; 256]) -> (r: [u8; 258])
    ensures r@ == spec_reg_packet(0x9200u16, id@) { unimplemented!() }
#[verifier::external_body] pub fn create_reg2_packet_(id: &[u8; 256]) -> (r: [u8; 258])
    ensures r@ == spec_reg_packet(0x9201u16, id@) { unimplemented!() }

// `dst.copy_from_slice(&src[a..b])`: panics unless the lengths agree -> precondition (a real obligation at the call site)
#[verifier::external_body]
pub fn copy_from_slice_range(dst: &mut [u8; 256], src: &[u8], a: usize, b: usize)
    requires a <= b <= src.len(), b - a == 256,  // @panic-model
    ensures final(dst)@ == src@.subrange(a as int, b as int),
{ dst.copy_from_slice(&src[a..b]); }

#[verifier::external_body] pub fn reg_driver_sends_default() -> (r: RegDriverSends) ensures r.reg1 is None, r.broadcast_reg2 is None { unimplemented!() }

pub open spec fn spec_count_connected(s: Seq<SrtlaConnection>) -> nat
    decreases s.len()
{
    if s.len() == 0 { 0 } else { spec_count_connected(s.drop_last()) + (if s.last().connected { 1nat } else { 0nat }) }
}

impl SrtlaRegistrationManager {
    // everything except the probe bookkeeping
    pub open spec fn same_handshake(&self, o: &SrtlaRegistrationManager) -> bool {
        &&& self.srtla_id == o.srtla_id
        &&& self.pending_reg2_idx == o.pending_reg2_idx
        &&& self.pending_timeout_at_ms == o.pending_timeout_at_ms
        &&& self.active_connections == o.active_connections
        &&& self.has_connected == o.has_connected
        &&& self.broadcast_reg2_pending == o.broadcast_reg2_pending
        &&& self.reg1_target_idx == o.reg1_target_idx
        &&& self.reg1_next_send_at_ms == o.reg1_next_send_at_ms
        &&& self.probing_state == o.probing_state
        &&& self.probe_id == o.probe_id
    }
}
'''

NOW = 'now < CLOCK_MAX'


def build():
    u = world.build('reg', active=['reg'])
    add_reg(u)
    return u


def add_reg(u):
    u.add(u.item(PB, 'enum', 'ProbingState'))
    u.add(u.item(PB, 'struct', 'ProbeResult'))
    u.add(u.item(R, 'enum', 'RegistrationEvent'))
    u.add(u.item(R, 'struct', 'RegDriverSends'))
    u.add(u.item(R, 'struct', 'SrtlaRegistrationManager'))
    u.add(SPEC)
    fns = []
    F = fns.append
    ID_SAME = 'final(self).srtla_id == old(self).srtla_id'
    F(u.fn(R, 'build_reg1_for', impl='SrtlaRegistrationManager', sub='reg', ret='r', requires=[NOW], ensures=[
        C('C07.reg.build_reg1_for.carries_adopted_id', 'r@ == spec_reg_packet(0x9200u16, old(self).srtla_id@)'),
        C('C07.reg.build_reg1_for.marks_this_uplink_outstanding', 'final(self).pending_reg2_idx == Some(conn_idx)'),
        C('C07.reg.build_reg1_for.deadline_4s_after_send', 'final(self).pending_timeout_at_ms == now + 4000'),
        'final(self).reg1_target_idx == Some(conn_idx)', 'final(self).reg1_next_send_at_ms == now + 1000', ID_SAME,
        'final(self).active_connections == old(self).active_connections', 'final(self).broadcast_reg2_pending == old(self).broadcast_reg2_pending',
        C('C04+C07.reg.build_reg1_for.session_established_flag_is_never_cleared', 'final(self).has_connected == old(self).has_connected'), 'final(self).probing_state == old(self).probing_state',
    ]))
    F(u.fn(R, 'build_reg2', impl='SrtlaRegistrationManager', sub='reg', ret='r', post_rewrite=[('create_reg2_packet(', 'create_reg2_packet_(', 1)], ensures=[
        C('C07.reg.build_reg2.carries_adopted_id', 'r@ == spec_reg_packet(0x9201u16, self.srtla_id@)')]))
    F(u.fn(R, 'process_registration_packet', impl='SrtlaRegistrationManager', sub='reg', ret='r', props=('C09', 'C15'), requires=['now_ms < CLOCK_MAX'], ensures=[
        C('C07+C09.reg.dispatch.event_exactly_for_the_four_handshake_types',
          '''(r is Some) == (spec_packet_type(buf@) == Some(0x9211u16) || spec_packet_type(buf@) == Some(0x9201u16) || spec_packet_type(buf@) == Some(0x9202u16) || spec_packet_type(buf@) == Some(0x9210u16))
            && (r is Some ==> ((r.unwrap() is RegNgp) == (spec_packet_type(buf@) == Some(0x9211u16)) && (r.unwrap() is Reg2) == (spec_packet_type(buf@) == Some(0x9201u16))
                && (r.unwrap() is Reg3) == (spec_packet_type(buf@) == Some(0x9202u16)) && (r.unwrap() is RegErr) == (spec_packet_type(buf@) == Some(0x9210u16))))'''),
        C('C07.reg.dispatch.id_adopted_only_from_full_reg2_on_the_reg1_uplink',
          '''final(self).srtla_id != old(self).srtla_id ==> spec_packet_type(buf@) == Some(0x9201u16) && old(self).pending_reg2_idx == Some(conn_idx) && buf.len() >= 258
            && final(self).srtla_id@ == buf@.subrange(2, 258)'''),
        C('C07.reg.dispatch.no_inbound_packet_makes_a_reg1_outstanding', 'final(self).pending_reg2_idx == old(self).pending_reg2_idx || final(self).pending_reg2_idx is None'),
        C('C07.reg.dispatch.reg_err_cancels_pending', 'spec_packet_type(buf@) == Some(0x9210u16) ==> final(self).pending_reg2_idx is None'),
        C('C07.reg.dispatch.broadcast_scheduled_only_by_accepted_reg2',
          '''final(self).broadcast_reg2_pending != old(self).broadcast_reg2_pending ==> final(self).broadcast_reg2_pending
            && spec_packet_type(buf@) == Some(0x9201u16) && old(self).pending_reg2_idx == Some(conn_idx) && buf.len() >= 258'''),
        C('C07.reg.dispatch.non_handshake_packet_changes_nothing', 'r is None ==> *final(self) == *old(self)'),
    ]))
    F(u.fn(R, 'reg_driver_pending_sends', impl='SrtlaRegistrationManager', sub='reg', ret='sends', requires=[NOW],
           post_rewrite=[('RegDriverSends::default()', 'reg_driver_sends_default()', 1), ('create_reg2_packet(', 'create_reg2_packet_(', 1)],
           ensures=[
        C('C07.reg.driver.reg1_only_while_no_uplink_registered_and_none_outstanding',
          '''sends.reg1 is Some ==> old(self).active_connections == 0 && old(self).pending_reg2_idx is None
            && old(self).reg1_target_idx == Some(sends.reg1.unwrap().0) && now >= old(self).reg1_next_send_at_ms'''),
        C('C07.reg.driver.reg1_marks_uplink_outstanding_with_4s_deadline',
          'sends.reg1 is Some ==> final(self).pending_reg2_idx == Some(sends.reg1.unwrap().0) && final(self).pending_timeout_at_ms == now + 4000'),
        C('C07.reg.driver.reg1_carries_adopted_id', 'sends.reg1 is Some ==> sends.reg1.unwrap().1@ == spec_reg_packet(0x9200u16, old(self).srtla_id@)'),
        C('C07.reg.driver.silent_means_pending_untouched', 'sends.reg1 is None ==> final(self).pending_reg2_idx == old(self).pending_reg2_idx && final(self).pending_timeout_at_ms == old(self).pending_timeout_at_ms'),
        C('C07.reg.driver.reg2_broadcast_exactly_once', '(sends.broadcast_reg2 is Some) == old(self).broadcast_reg2_pending && !final(self).broadcast_reg2_pending'),
        C('C07.reg.driver.reg2_carries_adopted_id', 'sends.broadcast_reg2 is Some ==> sends.broadcast_reg2.unwrap()@ == spec_reg_packet(0x9201u16, old(self).srtla_id@)'),
        ID_SAME, 'final(self).active_connections == old(self).active_connections', 'final(self).reg1_target_idx == old(self).reg1_target_idx',
    ]))
    F(u.fn(R, 'handle_reg_ngp', impl='SrtlaRegistrationManager', sub='reg',
           post_rewrite=[(re.compile(r'(\bself\.probing_state) == (ProbingState::\w+)'), r'matches!(\1, \2)', None), (re.compile(r'(\bself\.probing_state) != (ProbingState::\w+)'), r'!matches!(\1, \2)', None)],
           ensures=[
        C('C07.reg.handle_reg_ngp.never_makes_a_reg1_outstanding', 'final(self).pending_reg2_idx == old(self).pending_reg2_idx && final(self).pending_timeout_at_ms == old(self).pending_timeout_at_ms'),
        ID_SAME, 'final(self).broadcast_reg2_pending == old(self).broadcast_reg2_pending', 'final(self).active_connections == old(self).active_connections',
        C('C04+C07.reg.handle_reg_ngp.session_established_flag_is_never_cleared', 'final(self).has_connected == old(self).has_connected'),
        C('C07.reg.handle_reg_ngp.during_the_probe_round_a_reg_ngp_is_only_a_probe_answer',
          'old(self).probing_state is WaitingForProbes ==> final(self).reg1_target_idx == old(self).reg1_target_idx && final(self).reg1_next_send_at_ms == old(self).reg1_next_send_at_ms'),
        C('C07.reg.handle_reg_ngp.target_only_while_idle', '''final(self).reg1_target_idx != old(self).reg1_target_idx ==> old(self).active_connections == 0 && old(self).pending_reg2_idx is None
            && final(self).reg1_target_idx == Some(conn_idx) && final(self).reg1_next_send_at_ms == now_ms'''),
    ]))
    F(u.fn(R, 'handle_reg2', impl='SrtlaRegistrationManager', sub='reg', props=('C09', 'C15'), requires=['now_ms < CLOCK_MAX'],
           post_rewrite=[(re.compile(r'(\w+(?:\.\w+)*)\.copy_from_slice\(&(\w+)\[([^\]]*?)\.\.([^\]]*?)\]\);'),
                          lambda m: 'copy_from_slice_range(&mut %s, %s, %s, %s);' % (m.group(1), m.group(2), m.group(3).strip() or '0', m.group(4).strip() or (m.group(2) + '.len()')), 1)],
           ensures=[
        C('C07.reg.handle_reg2.rejects_short_or_wrong_uplink', '(buf.len() < 258 || old(self).pending_reg2_idx != Some(conn_idx)) ==> *final(self) == *old(self)'),
        C('C07.reg.handle_reg2.adopts_id_and_schedules_one_broadcast', '''(buf.len() >= 258 && old(self).pending_reg2_idx == Some(conn_idx)) ==> final(self).srtla_id@ == buf@.subrange(2, 258)
            && final(self).pending_reg2_idx is None && final(self).broadcast_reg2_pending && final(self).reg1_target_idx is None'''),
        'final(self).active_connections == old(self).active_connections', C('C04+C07.reg.handle_reg2.session_established_flag_is_never_cleared', 'final(self).has_connected == old(self).has_connected'),
        'final(self).probing_state == old(self).probing_state',
    ]))
    F(u.fn(R, 'handle_reg3', impl='SrtlaRegistrationManager', sub='reg', ensures=[
        C('C04+C07.reg.handle_reg3.frame', '*final(self) == (SrtlaRegistrationManager { has_connected: true, ..*old(self) })')]))
    F(u.fn(R, 'handle_reg_err', impl='SrtlaRegistrationManager', sub='reg', requires=['now_ms < CLOCK_MAX'], ensures=[
        C('C07.reg.handle_reg_err.cancels_pending', 'final(self).pending_reg2_idx is None && final(self).pending_timeout_at_ms == 0 && final(self).reg1_target_idx is None'),
        'final(self).reg1_next_send_at_ms == now_ms + 4000', ID_SAME, 'final(self).broadcast_reg2_pending == old(self).broadcast_reg2_pending',
        'final(self).active_connections == old(self).active_connections', C('C03+C04+C07.reg.handle_reg_err.session_established_flag_is_never_cleared', 'final(self).has_connected == old(self).has_connected'),
    ]))
    F(u.fn(R, 'reg1_if_ngp_immediate', impl='SrtlaRegistrationManager', sub='reg', ret='r', requires=[NOW], ensures=[
        C('C07.reg.immediate.reg1_only_while_no_uplink_registered_and_none_outstanding',
          'r is Some ==> old(self).active_connections == 0 && old(self).pending_reg2_idx is None && old(self).reg1_target_idx == Some(conn_idx)'),
        C('C07.reg.immediate.reg1_marks_uplink_outstanding_with_4s_deadline', 'r is Some ==> final(self).pending_reg2_idx == Some(conn_idx) && final(self).pending_timeout_at_ms == now + 4000'),
        C('C07.reg.immediate.reg1_carries_adopted_id', 'r is Some ==> r.unwrap()@ == spec_reg_packet(0x9200u16, old(self).srtla_id@)'),
        C('C07.reg.immediate.silent_means_unchanged', 'r is None ==> *final(self) == *old(self)'),
        ID_SAME,
    ]))
    F(u.fn(R, 'pending_reg2_idx', impl='SrtlaRegistrationManager', sub='reg', ret='r', ensures=['r == self.pending_reg2_idx']))
    import rules as _rules
    # probing.rs: `probe_results.iter_mut().find(|r| r.conn_idx == conn_idx)` -> first-match cursor loop (R12 find_mut); panic freedom claimed (C09: any datagram, any state)
    F(u.fn(PB, 'handle_probe_response', impl='SrtlaRegistrationManager', sub='reg', props=('C09',),
           post_rewrite=[(lambda t: _rules.r12_find_mut(t)[0], None, 0)],
           ensures=[C('C07.reg.handle_probe_response.writes_probe_results_only', 'final(self).same_handshake(old(self))')]))
    import rules
    F(u.fn(R, 'update_active_connections', impl='SrtlaRegistrationManager', sub='reg',
           pre_rewrite=[(lambda t: rules.r12_filter_count(t)[0], None, 1)],
           ensures=[
               C('C07.reg.update_active_connections.counts_exactly_the_registered_uplinks', 'final(self).active_connections == spec_count_connected(connections@)'),
               C('C04+C07.reg.update_active_connections.frame', '*final(self) == (SrtlaRegistrationManager { active_connections: final(self).active_connections, ..*old(self) })'),
           ],
           loops={0: dict(inv=['c_nx <= connections.len()', 'new_count_n <= c_nx',
                               C('C07.reg.update_active_connections.counts_exactly_the_registered_uplinks', 'new_count_n as nat == spec_count_connected(connections@.subrange(0, c_nx as int))')],
                          dec='connections.len() - c_nx')},
           splices=[('if c.connected { new_count_n += 1; }', '''proof {
                assert(connections@.subrange(0, c_nx as int).drop_last() =~= connections@.subrange(0, c_nx as int - 1));
            }''', 'after', 'opt'),
                    ('let new_count = new_count_n;', 'proof { assert(connections@.subrange(0, c_nx as int) =~= connections@); }', 'after')]))
    F(u.fn(R, 'clear_pending_if_timed_out', impl='SrtlaRegistrationManager', sub='reg', ret='r', ensures=[
        C('C07.reg.clear_pending.abandons_exactly_when_deadline_passed',
          '''(r is Some) == (old(self).pending_reg2_idx is Some && old(self).pending_timeout_at_ms != 0 && now_ms_value >= old(self).pending_timeout_at_ms)
            && (r is Some ==> r == old(self).pending_reg2_idx && final(self).pending_reg2_idx is None && final(self).pending_timeout_at_ms == 0
                && final(self).reg1_target_idx is None && final(self).reg1_next_send_at_ms == now_ms_value)'''),
        C('C07.reg.clear_pending.otherwise_unchanged', 'r is None ==> *final(self) == *old(self)'),
        ID_SAME, 'final(self).broadcast_reg2_pending == old(self).broadcast_reg2_pending', 'final(self).active_connections == old(self).active_connections',
    ]))
    F(u.fn(R, 'get_selected_connection_idx', impl='SrtlaRegistrationManager', sub='reg', ret='r', ensures=['r == self.reg1_target_idx']))
    F(u.fn(PB, 'is_probing', impl='SrtlaRegistrationManager', sub='reg', ret='r', ensures=['r == (self.probing_state is Probing || self.probing_state is WaitingForProbes)']))
    u.add(impl_block('SrtlaRegistrationManager', fns))

    # [L] deadline lemma: between the send of REG1 and its abandonment lie exactly 4 s (over the contracts above)
    u.add(r'''
// [L] C07: a REG1 sent at time t by any of the three emitters is abandoned by clear_pending_if_timed_out exactly from t + 4000 on
pub proof fn lemma_reg1_abandoned_after_4s(m: SrtlaRegistrationManager, t: u64, idx: usize, now: u64)
    requires m.pending_reg2_idx == Some(idx), m.pending_timeout_at_ms == t + 4000, t < CLOCK_MAX,
    ensures (now >= t + 4000) == (m.pending_reg2_idx is Some && m.pending_timeout_at_ms != 0 && now >= m.pending_timeout_at_ms),  // @ob C07.reg.lemma.unanswered_reg1_abandoned_after_4s
{ }
''')
