import shell
def build():
    return shell.build_events()
