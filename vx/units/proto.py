import re
"""Unit `proto`: srtla-protocol decoders (C15, feeds C09/C14/C07 through the shell units)."""
from gen import Unit, C, impl_block, mod_block
import prelude

P = 'crates/srtla-protocol/src/'

SPEC = r'''
pub open spec fn spec_packet_type(buf: Seq<u8>) -> Option<u16> {
    if buf.len() < 2 { None } else { Some(spec_be16(buf[0], buf[1])) }
}
pub open spec fn be32_at(buf: Seq<u8>, i: int) -> u32 { spec_be32(buf[i], buf[i + 1], buf[i + 2], buf[i + 3]) }

// big-endian accumulation of n bytes starting at offset 2 (keepalive timestamp)
pub open spec fn be_acc(buf: Seq<u8>, n: int) -> u64
    decreases n
{
    if n <= 0 { 0 } else { (be_acc(buf, n - 1) << 8) | (buf[2 + n - 1] as u64) }
}

pub open spec fn spec_keepalive_ts(buf: Seq<u8>) -> Option<u64> {
    if buf.len() >= 10 && spec_packet_type(buf) == Some(0x9000u16) { Some(be_acc(buf, 8)) } else { None }
}
pub open spec fn spec_keepalive_info(buf: Seq<u8>) -> Option<ConnectionInfo> {
    if buf.len() >= 38 && spec_packet_type(buf) == Some(0x9000u16) && spec_be16(buf[10], buf[11]) == 0xc01fu16 && spec_be16(buf[12], buf[13]) == 1u16 {
        Some(ConnectionInfo { conn_id: be32_at(buf, 14), window: be32_at(buf, 18) as i32, in_flight: be32_at(buf, 22) as i32,
                              rtt_ms: be32_at(buf, 26), nak_count: be32_at(buf, 30), bitrate_bytes_per_sec: be32_at(buf, 34) })
    } else { None }
}
pub open spec fn spec_parse_srt_ack(buf: Seq<u8>) -> Option<u32> {
    if buf.len() >= 20 && spec_packet_type(buf) == Some(0x8002u16) { Some(be32_at(buf, 16)) } else { None }
}
pub open spec fn spec_parse_srt_nak(buf: Seq<u8>) -> Seq<u32> {
    if buf.len() >= 8 && spec_packet_type(buf) == Some(0x8003u16) { nak_entries(buf, 4, Seq::empty()) } else { Seq::<u32>::empty() }
}
pub open spec fn spec_parse_srtla_ack(buf: Seq<u8>) -> Seq<u32> {
    if buf.len() >= 8 && spec_packet_type(buf) == Some(0x9100u16) { srtla_acks(buf, (buf.len() - 4) / 4) } else { Seq::<u32>::empty() }
}
pub open spec fn wrap_inc(x: u32) -> u32 { if x == u32::MAX { 0 } else { (x + 1) as u32 } }

// range expansion of one NAK range entry: seq..=end, stopping when the output holds 1000 entries
pub open spec fn nak_range(seq: u32, end: u32, acc: Seq<u32>) -> Seq<u32>
    decreases (if acc.len() < 1000 { 1000 - acc.len() } else { 0 })
{
    if seq <= end && acc.len() < 1000 { nak_range(wrap_inc(seq), end, acc.push(seq)) } else { acc }
}

// SRT NAK loss list, from byte offset i: a word with the top bit set opens a range (two words),
// a word with the top bit clear is a single sequence number
pub open spec fn nak_entries(buf: Seq<u8>, i: int, acc: Seq<u32>) -> Seq<u32>
    decreases buf.len() - i
{
    if 0 <= i && i + 3 < buf.len() {
        let id = be32_at(buf, i);
        if (id & 0x8000_0000u32) != 0 {
            if i + 7 >= buf.len() { acc } else {
                nak_entries(buf, i + 8, nak_range(id & 0x7fff_ffffu32, be32_at(buf, i + 4), acc))
            }
        } else {
            nak_entries(buf, i + 4, acc.push(id))
        }
    } else { acc }
}

pub proof fn lemma_nak_range_len(seq: u32, end: u32, acc: Seq<u32>)
    ensures nak_range(seq, end, acc).len() >= acc.len(),
        nak_range(seq, end, acc).len() <= (if acc.len() > 1000 { acc.len() } else { 1000 }),
    decreases (if acc.len() < 1000 { 1000 - acc.len() } else { 0 })
{
    if seq <= end && acc.len() < 1000 { lemma_nak_range_len(wrap_inc(seq), end, acc.push(seq)); }
}

pub proof fn lemma_top_bit(a: u8, b: u8, c: u8, d: u8)
    ensures ((spec_be32(a, b, c, d) & 0x8000_0000u32) == 0) <==> ((a & 0x80u8) == 0),
{
    assert(((((a as u32) << 24) | ((b as u32) << 16) | ((c as u32) << 8) | (d as u32)) & 0x8000_0000u32) == 0
        <==> ((a & 0x80u8) == 0)) by (bit_vector);
}

pub open spec fn srtla_acks(buf: Seq<u8>, k: int) -> Seq<u32>
    decreases k
{
    if k <= 0 { Seq::empty() } else { srtla_acks(buf, k - 1).push(be32_at(buf, 4 + 4 * (k - 1))) }
}

// ---------- builder side (create_ack_packet): std byte-order writers as stubs over the same spec_be16 / spec_be32 ----------
// vec![0u8; n]
#[verifier::external_body] pub fn vec_zeroed(n: usize) -> (r: Vec<u8>) ensures r.len() == n, forall|i: int| 0 <= i < n ==> #[trigger] r[i] == 0u8 { vec![0u8; n] }
// buf[off..off + 2].copy_from_slice(&x.to_be_bytes())   (the slice range must be in bounds: panic condition)
#[verifier::external_body] pub fn put_be16(buf: &mut Vec<u8>, off: usize, x: u16)
    requires off + 2 <= old(buf).len(),  // @panic-model
    ensures final(buf).len() == old(buf).len(), spec_be16(final(buf)[off as int], final(buf)[off + 1]) == x,
        forall|j: int| 0 <= j < old(buf).len() && !(off <= j < off + 2) ==> #[trigger] final(buf)[j] == old(buf)[j],
{ buf[off..off + 2].copy_from_slice(&x.to_be_bytes()); }
#[verifier::external_body] pub fn put_be32(buf: &mut Vec<u8>, off: usize, x: u32)
    requires off + 4 <= old(buf).len(),  // @panic-model
    ensures final(buf).len() == old(buf).len(), be32_at(final(buf)@, off as int) == x,
        forall|j: int| 0 <= j < old(buf).len() && !(off <= j < off + 4) ==> #[trigger] final(buf)[j] == old(buf)[j],
{ buf[off..off + 4].copy_from_slice(&x.to_be_bytes()); }
// the first k decoded entries only read bytes below 4 + 4k
pub proof fn lemma_srtla_acks_frame(a: Seq<u8>, b: Seq<u8>, k: int)
    requires k >= 0, a.len() >= 4 + 4 * k, b.len() >= 4 + 4 * k, forall|j: int| 0 <= j < 4 + 4 * k ==> a[j] == b[j],
    ensures srtla_acks(a, k) == srtla_acks(b, k),
    decreases k,
{
    if k > 0 {
        lemma_srtla_acks_frame(a, b, k - 1);
        assert(be32_at(a, 4 + 4 * (k - 1)) == be32_at(b, 4 + 4 * (k - 1)));
    }
}
'''


def build():
    import world
    return world.build('proto', active=['proto'])


def add_proto(u):
    u.add(u.consts(P + 'constants.rs'))
    u.add(u.item(P + 'types.rs', 'struct', 'ConnectionInfo'))
    u.add(SPEC)

    u.add(u.fn(P + 'types.rs', 'get_packet_type', sub='proto', props=('C15', 'C09'), ret='r', ensures=[
        C('C15.proto.get_packet_type.layout', 'r == spec_packet_type(buf@)'),
    ]))
    u.add(u.fn(P + 'types.rs', 'get_srt_sequence_number', sub='proto', props=('C15', 'C09'), ret='r', ensures=[
        C('C15.proto.get_srt_sequence_number.layout',
          'r == (if buf.len() < 4 { None::<u32> } else if (be32_at(buf@, 0) & 0x8000_0000u32) == 0 { Some(be32_at(buf@, 0)) } else { None::<u32> })'),
        C('C15.proto.get_srt_sequence_number.data_iff_top_bit_clear', 'r is Some <==> (buf.len() >= 4 && (buf[0] & 0x80u8) == 0)'),
    ], splices=[('if (sn & 0x8000_0000) == 0 {', 'proof { lemma_top_bit(buf[0], buf[1], buf[2], buf[3]); }', 'before')]))
    u.add(u.fn(P + 'types.rs', 'is_srt_data_retransmit', sub='proto', props=('C15', 'C09'), ret='r', ensures=[
        C('C15.proto.is_srt_data_retransmit.layout', 'r == (buf.len() >= 8 && (buf[0] & 0x80u8) == 0 && (buf[4] & 0x04u8) != 0)'),
    ]))
    for nm, ln, ty in (('is_srtla_reg1', '258', '0x9200u16'), ('is_srtla_reg2', '258', '0x9201u16'), ('is_srtla_reg3', '2', '0x9202u16')):
        u.add(u.fn(P + 'types.rs', nm, sub='proto', props=('C15', 'C09'), ret='r', ensures=[
            C('C15.proto.%s.layout' % nm, 'r == (buf.len() == %s && spec_packet_type(buf@) == Some(%s))' % (ln, ty)),
        ]))

    u.add(u.fn(P + 'parsers.rs', 'extract_keepalive_timestamp', sub='proto', props=('C15', 'C09'), ret='r', ensures=[
        C('C15.proto.extract_keepalive_timestamp.layout', 'r == spec_keepalive_ts(buf@)'),
    ], loops={0: dict(inv=['buf.len() >= 10', 'ts == be_acc(buf@, i as int)'])}))

    u.add(u.fn(P + 'parsers.rs', 'extract_keepalive_conn_info', sub='proto', props=('C15', 'C09'), ret='r', ensures=[
        C('C15.proto.extract_keepalive_conn_info.accepts_iff',
          'r is Some <==> (buf.len() >= 38 && spec_packet_type(buf@) == Some(0x9000u16) && spec_be16(buf[10], buf[11]) == 0xc01fu16 && spec_be16(buf[12], buf[13]) == 1u16)'),
        C('C15.proto.extract_keepalive_conn_info.fields', '''r is Some ==> r.unwrap().conn_id == be32_at(buf@, 14)
            && r.unwrap().window == be32_at(buf@, 18) as i32
            && r.unwrap().in_flight == be32_at(buf@, 22) as i32
            && r.unwrap().rtt_ms == be32_at(buf@, 26)
            && r.unwrap().nak_count == be32_at(buf@, 30)
            && r.unwrap().bitrate_bytes_per_sec == be32_at(buf@, 34)'''),
        C('C15.proto.extract_keepalive_conn_info.layout', 'r == spec_keepalive_info(buf@)'),
    ]))

    u.add(u.fn(P + 'parsers.rs', 'parse_srt_ack', sub='proto', props=('C15', 'C09'), ret='r', ensures=[
        C('C15.proto.parse_srt_ack.layout', 'r == spec_parse_srt_ack(buf@)'),
    ]))

    u.add(u.fn(P + 'parsers.rs', 'parse_srt_nak', sub='proto', props=('C15', 'C09'), ret='out', ensures=[
        C('C15.proto.parse_srt_nak.entries', 'out@ == spec_parse_srt_nak(buf@)'),
        C('C15.proto.parse_srt_nak.bounded', 'out.len() <= 1000 + (if buf.len() >= 4 { (buf.len() - 4) / 4 } else { 0 })'),
    ], loops={
        0: dict(inv=['buf.len() >= 8', '4 <= i', 'i % 4 == 0', 'i <= buf.len()',
                     C('C15.proto.parse_srt_nak.bounded', 'out.len() <= 1000 + (i - 4) / 4'),
                     C('C15.proto.parse_srt_nak.entries', 'nak_entries(buf@, 4, Seq::empty()) == nak_entries(buf@, i as int, out@)')],
                ens=['i + 3 >= buf.len()'],
                dec='buf.len() - i'),
        1: dict(inv=['i0_len <= out.len()',
                     C('C15.proto.parse_srt_nak.bounded', 'out.len() <= (if i0_len > 1000 { i0_len } else { 1000 })'),
                     C('C15.proto.parse_srt_nak.entries', 'nak_range(id, end, i0_out) == nak_range(seq, end, out@)')],
                dec='(if out.len() < 1000 { 1000 - out.len() } else { 0 })'),
    }, splices=[
        ('let mut seq = id;', 'let ghost i0_len = out.len(); let ghost i0_out = out@;', 'after'),
    ]))

    u.add(u.fn(P + 'parsers.rs', 'parse_srtla_ack', sub='proto', props=('C15', 'C09'), ret='out', ensures=[
        C('C15.proto.parse_srtla_ack.layout', 'out@ == spec_parse_srtla_ack(buf@)'),
        C('C15.proto.parse_srtla_ack.count', 'out.len() == (if buf.len() >= 8 && spec_packet_type(buf@) == Some(0x9100u16) { (buf.len() - 4) / 4 } else { 0 })'),
    ], loops={
        0: dict(inv=['buf.len() >= 8', '4 <= i', 'i % 4 == 0', 'i <= buf.len()',
                     C('C15.proto.parse_srtla_ack.layout', 'out@ == srtla_acks(buf@, (i - 4) / 4)'),
                     C('C15.proto.parse_srtla_ack.count', 'out.len() == (i - 4) / 4')],
                dec='buf.len() - i'),
    }))

    # builders.rs: create_ack_packet round trip for ANY number of entries (the sender itself never builds ACKs; receivers and tests do)
    u.add(u.fn(P + 'builders.rs', 'create_ack_packet', sub='proto', props=('C15',), ret='pkt_r',
               pre_rewrite=[('SmallVec::from_vec(vec![0u8; 4 + 4 * acks.len()])', 'vec_zeroed(4 + 4 * acks.len())', 1),
                            ('pkt[0..2].copy_from_slice(&SRTLA_TYPE_ACK.to_be_bytes());', 'put_be16(&mut pkt, 0, SRTLA_TYPE_ACK);', 1),
                            (re.compile(r'pkt\[(\d+)\] = (0x[0-9a-fA-F]+);'), r'pkt.set(\1, \2);', 2),
                            ('pkt[off..off + 4].copy_from_slice(&ack.to_be_bytes());', 'put_be32(&mut pkt, off, ack);', 1)],
               requires=['acks.len() < 0x1000_0000'],
               ensures=[
                   C('C15.proto.create_ack_packet.length_is_4_plus_4n', 'pkt_r.len() == 4 + 4 * acks.len()'),
                   C('C15.proto.create_ack_packet.decodes_back_to_the_same_list', 'spec_parse_srtla_ack(pkt_r@) =~= acks@'),
                   C('C15.proto.create_ack_packet.type_is_srtla_ack', 'spec_packet_type(pkt_r@) == Some(0x9100u16)'),
               ],
               loops={0: dict(inv=['i_nx <= acks.len()', 'acks.len() < 0x1000_0000', 'pkt.len() == 4 + 4 * acks.len()', 'spec_packet_type(pkt@) == Some(0x9100u16)',
                                   C('C15.proto.create_ack_packet.decodes_back_to_the_same_list', 'srtla_acks(pkt@, i_nx as int) =~= acks@.subrange(0, i_nx as int)')],
                              dec='acks.len() - i_nx',
                              after='    proof { assert(acks@.subrange(0, acks@.len() as int) =~= acks@); }',
                              begin='        let ghost p0 = pkt@;',
                              end="""        proof {
            let k = i_nx as int - 1;
            lemma_srtla_acks_frame(p0, pkt@, k);
            assert(acks@.subrange(0, k + 1) =~= acks@.subrange(0, k).push(acks@[k]));
        }""")},
               ))
