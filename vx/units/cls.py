"""Unit `cls`: weak-link classifier (C17).  The real 200-line `classify` with its four cursor loops and four
hash maps; floats stay uninterpreted (the property lives in the control flow and the integer hysteresis state)."""
import re

from gen import Unit, C, impl_block, mod_block
import world

K = 'crates/srtla-core/src/'
CL = K + 'selection/classifier.rs'

SPEC = r'''
// ---------- classifier spec layer ----------
pub open spec fn is_delay(r: WeakReason) -> bool { r is HighRtt || r is QueueBuilding }
pub open spec fn is_share(r: WeakReason) -> bool { r is LowShare || r is NoTraffic }
pub open spec fn u32_of(m: Map<u64, u32>, id: u64) -> u32 { if m.contains_key(id) { m[id] } else { 0 } }
pub open spec fn bool_of(m: Map<u64, bool>, id: u64) -> bool { if m.contains_key(id) { m[id] } else { false } }
pub open spec fn sat_u32_inc(x: u32) -> u32 { if x == u32::MAX { x } else { (x + 1) as u32 } }

pub open spec fn distinct_ids(conns: Seq<SrtlaConnection>) -> bool {
    forall|i: int, j: int| 0 <= i < j < conns.len() ==> conns[i].conn_id != conns[j].conn_id
}
pub open spec fn count_connected(s: Seq<SrtlaConnection>, n: int) -> int
    decreases n
{
    if n <= 0 { 0 } else { count_connected(s, n - 1) + (if s[n - 1].connected { 1int } else { 0int }) }
}
// total throughput as the classifier adds it up: connected links only, negative readings count as 0
pub open spec fn spec_total_bps(s: Seq<SrtlaConnection>, n: int) -> f64
    decreases n
{
    if n <= 0 { 0.0f64 } else if s[n - 1].connected { spec_total_bps(s, n - 1).add_spec(spec_f64_max(s[n - 1].bitrate.current_bitrate_bps, 0.0f64)) } else { spec_total_bps(s, n - 1) }
}
pub open spec fn bypassed(conns: Seq<SrtlaConnection>) -> bool {
    flt(spec_total_bps(conns, conns.len() as int), 100_000.0f64) || count_connected(conns, conns.len() as int) == 0
}
pub proof fn lemma_count_bounds(s: Seq<SrtlaConnection>, n: int)
    requires 0 <= n <= s.len(),
    ensures 0 <= count_connected(s, n) <= n,
    decreases n
{ if n > 0 { lemma_count_bounds(s, n - 1); } }

// hysteresis transition of one link (C17): (old streak, old probation, share-weak verdict) -> (streak', probation')
pub open spec fn step_streak(streak: u32, probation: u32, share_weak: bool) -> u32 {
    if probation > 0 { 0 } else if share_weak { if sat_u32_inc(streak) >= 15 { 0 } else { sat_u32_inc(streak) } } else { 0 }
}
pub open spec fn step_probation(streak: u32, probation: u32, share_weak: bool) -> u32 {
    if probation > 0 { (probation - 1) as u32 } else if share_weak && sat_u32_inc(streak) >= 15 { 3 } else { 0 }
}

impl WeakLinkFilter {
    pub open spec fn wf(&self) -> bool {
        forall|id: u64| u32_of(self.weak_streak@, id) < 15 && u32_of(self.probation_ticks@, id) <= 3
    }
}

// [L] C17: at most 15 consecutive share-weak verdicts, then three forced not-weak ticks (induction over the step relation)
pub proof fn lemma_probation_after_15(streak: u32, probation: u32)
    requires streak < 15, probation == 0,
    ensures
        // the 15th consecutive share-weak verdict (streak 14 -> would be 15) arms a probation of exactly three ticks
        streak == 14 ==> step_probation(streak, probation, true) == 3 && step_streak(streak, probation, true) == 0,  // @ob C17.cls.lemma.probation_armed_by_15th_verdict
        streak < 14 ==> step_probation(streak, probation, true) == 0 && step_streak(streak, probation, true) == streak + 1,  // @ob C17.cls.lemma.streak_counts_consecutive_verdicts
        step_streak(streak, probation, false) == 0,  // @ob C17.cls.lemma.any_other_verdict_restarts_the_count
{ }
pub proof fn lemma_probation_counts_down(probation: u32, s: u32, w: bool)
    requires 0 < probation <= 3,
    ensures step_probation(s, probation, w) == probation - 1, step_streak(s, probation, w) == 0,  // @ob C17.cls.lemma.probation_lasts_three_ticks
{ }
'''

REQ = ['distinct_ids(conns@)', 'old(self).wf()']

ENS = [
    'r.per_link.len() == conns.len()',
    C('C17.cls.classify.verdicts_in_link_order', 'forall|i: int| 0 <= i < conns.len() ==> (#[trigger] r.per_link[i]).conn_id == conns[i].conn_id'),
    C('C17.cls.classify.never_weak_while_disconnected', 'forall|i: int| 0 <= i < conns.len() && !conns[i].connected ==> !(#[trigger] r.per_link[i]).weak'),
    C('C17.cls.classify.never_weak_under_100kbps_total', '''bypassed(conns@) ==> (forall|i: int| 0 <= i < conns.len() ==> !(#[trigger] r.per_link[i]).weak && r.per_link[i].reason is Bypassed)
            && final(self).prev_weak@.len() == 0 && final(self).delay_weak_streak@.len() == 0 && final(self).weak_streak@.len() == 0 && final(self).probation_ticks@.len() == 0'''),
    C('C17.cls.classify.delay_verdict_needs_two_consecutive_ticks', '''forall|i: int| 0 <= i < conns.len() && (#[trigger] r.per_link[i]).weak && is_delay(r.per_link[i].reason)
            ==> u32_of(old(self).delay_weak_streak@, conns[i].conn_id) >= 1 && u32_of(final(self).delay_weak_streak@, conns[i].conn_id) >= 2'''),
    C('C17.cls.classify.delay_streak_counts_consecutive_ticks', '''!bypassed(conns@) ==> forall|i: int| 0 <= i < conns.len() && (#[trigger] conns[i]).connected ==>
            u32_of(final(self).delay_weak_streak@, conns[i].conn_id) == 0
            || u32_of(final(self).delay_weak_streak@, conns[i].conn_id) == sat_u32_inc(u32_of(old(self).delay_weak_streak@, conns[i].conn_id))'''),
    C('C17.cls.classify.probation_forces_not_weak', '''!bypassed(conns@) ==> forall|i: int| 0 <= i < conns.len() && (#[trigger] conns[i]).connected && u32_of(old(self).probation_ticks@, conns[i].conn_id) > 0
            ==> !r.per_link[i].weak'''),
    C('C17.cls.classify.streak_and_probation_follow_the_step_relation', '''!bypassed(conns@) ==> forall|i: int| 0 <= i < conns.len() && (#[trigger] conns[i]).connected ==> ({
                let id = conns[i].conn_id;
                let sw = r.per_link[i].weak && is_share(r.per_link[i].reason);
                let s0 = u32_of(old(self).weak_streak@, id);
                let p0 = u32_of(old(self).probation_ticks@, id);
                &&& (p0 == 0 ==> u32_of(final(self).weak_streak@, id) == step_streak(s0, p0, sw) && u32_of(final(self).probation_ticks@, id) == step_probation(s0, p0, sw))
                &&& (p0 > 0 ==> u32_of(final(self).weak_streak@, id) == 0 && u32_of(final(self).probation_ticks@, id) == p0 - 1)
            })'''),
    C('C17.cls.classify.at_most_15_consecutive_share_weak_verdicts', 'final(self).wf()'),
    C('C17.cls.classify.enter_below_quarter_leave_at_three_quarters_of_fair_share', '''!bypassed(conns@) ==> forall|i: int| 0 <= i < conns.len() && (#[trigger] conns[i]).connected ==> ({
                let n = count_connected(conns@, conns.len() as int);
                let was = bool_of(old(self).prev_weak@, conns[i].conn_id);
                &&& r.per_link[i].threshold_permille == (if was { 750int / n } else { 250int / n })
                &&& (r.per_link[i].weak && r.per_link[i].reason is LowShare ==> r.per_link[i].share_permille < r.per_link[i].threshold_permille)
                &&& (was && !r.per_link[i].weak && u32_of(old(self).probation_ticks@, conns[i].conn_id) == 0 ==> r.per_link[i].share_permille >= 750int / n)
            })'''),
    C('C17.cls.classify.verdict_is_remembered_for_the_next_tick', '''!bypassed(conns@) ==> forall|i: int| 0 <= i < conns.len() && (#[trigger] conns[i]).connected ==>
            bool_of(final(self).prev_weak@, conns[i].conn_id) == r.per_link[i].weak'''),
]

# loop invariants -----------------------------------------------------------
I0 = ['conn_nx <= conns.len()', 'per_link.len() == 0', 'connected_count == count_connected(conns@, conn_nx as int)', 'connected_count <= conn_nx',
      C('C17.cls.classify.never_weak_under_100kbps_total', 'total_bps == spec_total_bps(conns@, conn_nx as int)'), '*self == *old(self)']
I1 = ['conn_nx <= conns.len()', 'per_link.len() == conn_nx', '*self == *old(self)',
      C('C17.cls.classify.never_weak_under_100kbps_total', 'forall|j: int| 0 <= j < conn_nx ==> (#[trigger] per_link[j]).conn_id == conns[j].conn_id && !per_link[j].weak && per_link[j].reason is Bypassed')]
I2 = ['conn_nx <= conns.len()', 'per_link.len() == 0', '*self == *old(self)']

KEYS = '''forall|id: u64| (#[trigger] next_prev_weak@.contains_key(id)) == (exists|j: int| 0 <= j < conn_nx && conns[j].connected && #[trigger] conns[j].conn_id == id)'''


def keys_inv(m):
    return 'forall|id: u64| (#[trigger] %s@.contains_key(id)) ==> exists|j: int| 0 <= j < conn_nx && conns[j].connected && #[trigger] conns[j].conn_id == id' % m


I3 = ['conn_nx <= conns.len()', 'per_link.len() == conn_nx', 'n_connected >= 1', 'n_connected == count_connected(conns@, conns.len() as int)', '*self == *old(self)', 'old(self).wf()',
      'distinct_ids(conns@)', C('C17.cls.classify.enter_below_quarter_leave_at_three_quarters_of_fair_share', 'enter_threshold_permille == 250int / (n_connected as int) && leave_threshold_permille == 750int / (n_connected as int)'),
      keys_inv('next_prev_weak'), keys_inv('next_delay_streak'), keys_inv('next_weak_streak'), keys_inv('next_probation'),
      C('C17.cls.classify.at_most_15_consecutive_share_weak_verdicts', 'forall|id: u64| u32_of(next_weak_streak@, id) < 15 && u32_of(next_probation@, id) <= 3'),
      C('C17.cls.classify.verdicts_in_link_order', 'forall|j: int| 0 <= j < conn_nx ==> (#[trigger] per_link[j]).conn_id == conns[j].conn_id'),
      C('C17.cls.classify.never_weak_while_disconnected', 'forall|j: int| 0 <= j < conn_nx && !conns[j].connected ==> !(#[trigger] per_link[j]).weak'),
      C('C17.cls.classify.delay_verdict_needs_two_consecutive_ticks', '''forall|j: int| 0 <= j < conn_nx && (#[trigger] per_link[j]).weak && is_delay(per_link[j].reason)
                ==> u32_of(old(self).delay_weak_streak@, conns[j].conn_id) >= 1 && u32_of(next_delay_streak@, conns[j].conn_id) >= 2'''),
      C('C17.cls.classify.delay_streak_counts_consecutive_ticks', '''forall|j: int| 0 <= j < conn_nx && (#[trigger] conns[j]).connected ==>
                u32_of(next_delay_streak@, conns[j].conn_id) == 0 || u32_of(next_delay_streak@, conns[j].conn_id) == sat_u32_inc(u32_of(old(self).delay_weak_streak@, conns[j].conn_id))'''),
      C('C17.cls.classify.probation_forces_not_weak', 'forall|j: int| 0 <= j < conn_nx && (#[trigger] conns[j]).connected && u32_of(old(self).probation_ticks@, conns[j].conn_id) > 0 ==> !per_link[j].weak'),
      C('C17.cls.classify.streak_and_probation_follow_the_step_relation', '''forall|j: int| 0 <= j < conn_nx && (#[trigger] conns[j]).connected ==> ({
                    let id = conns[j].conn_id;
                    let sw = per_link[j].weak && is_share(per_link[j].reason);
                    let s0 = u32_of(old(self).weak_streak@, id);
                    let p0 = u32_of(old(self).probation_ticks@, id);
                    &&& (p0 == 0 ==> u32_of(next_weak_streak@, id) == step_streak(s0, p0, sw) && u32_of(next_probation@, id) == step_probation(s0, p0, sw))
                    &&& (p0 > 0 ==> u32_of(next_weak_streak@, id) == 0 && u32_of(next_probation@, id) == p0 - 1)
                })'''),
      C('C17.cls.classify.enter_below_quarter_leave_at_three_quarters_of_fair_share', '''forall|j: int| 0 <= j < conn_nx && (#[trigger] conns[j]).connected ==> ({
                    let was = bool_of(old(self).prev_weak@, conns[j].conn_id);
                    &&& per_link[j].threshold_permille == (if was { 750int / (n_connected as int) } else { 250int / (n_connected as int) })
                    &&& (per_link[j].weak && per_link[j].reason is LowShare ==> per_link[j].share_permille < per_link[j].threshold_permille)
                    &&& (was && !per_link[j].weak && u32_of(old(self).probation_ticks@, conns[j].conn_id) == 0 ==> per_link[j].share_permille >= 750int / (n_connected as int))
                })'''),
      C('C17.cls.classify.verdict_is_remembered_for_the_next_tick', 'forall|j: int| 0 <= j < conn_nx && (#[trigger] conns[j]).connected ==> bool_of(next_prev_weak@, conns[j].conn_id) == per_link[j].weak'),
      ]


RLIMIT = 40


def build():
    u = world.build('cls', active=[])
    u.add(u.consts(CL))
    u.add(u.item(CL, 'enum', 'WeakReason'))
    u.add(u.item(CL, 'struct', 'LinkClassification'))
    u.add(u.item(CL, 'struct', 'ClassificationResult'))
    u.add(u.item(CL, 'struct', 'WeakLinkFilter'))
    u.add(SPEC)
    u.add(impl_block('WeakLinkFilter', [
        u.fn(CL, 'classify', impl='WeakLinkFilter', ret='r', requires=REQ, ensures=ENS, props=(),
             loops={0: dict(inv=I0, dec='conns.len() - conn_nx'), 1: dict(inv=I1, dec='conns.len() - conn_nx'),
                    2: dict(inv=I2, dec='conns.len() - conn_nx'), 3: dict(inv=I3, dec='conns.len() - conn_nx')},
             splices=[
                 ('let estimated_max_delay_ms = derive_max_delay_budget(longest_rtt_ms);',
                  '''proof { lemma_count_bounds(conns@, conns.len() as int);
            assert(!bypassed(conns@));  // @ob C17.cls.classify.never_weak_under_100kbps_total
        }''', 'before'),
                 ('self.prev_weak.clear();', '''proof {
            assert(bypassed(conns@));  // @ob C17.cls.classify.never_weak_under_100kbps_total
        }''', 'before'),
             ]),
    ]))
    for f in ('derive_max_delay_budget', 'target_best_delay_ms', 'target_safe_delay_ms', 'target_max_delay_ms', 'pick_tier'):
        u.add(u.fn(CL, f, ret='r', props=(), ensures=(['500 <= r <= 5000'] if f == 'derive_max_delay_budget' else [])))
    return u
