"""Unit `ctl` (C18, partial): the JSON-RPC envelope logic of src/control.rs::dispatch_inner and the runtime
configuration cells of src/config.rs::DynamicConfig.

What the extraction drops / replaces (R15-style, stated):
 * serde_json (parsing a line into a Request, Value, the json! macro), string comparison and trimming are trusted
   UNINTERPRETED stubs; handle_method (string match on the method name + JSON parameter extraction) is a stub.
 * the shared atomics (Arc<AtomicXX>, Ordering::Relaxed) are SEQUENTIALISED: every cell becomes a plain cell, setters take
   `&mut self`.  Concurrent setters / snapshot readers are out of reach."""
import re

from gen import Unit, C, impl_block
import prelude

CT = 'src/control.rs'
CF = 'src/config.rs'
K = 'crates/srtla-core/src/'

STUBS = r'''
// ---------- trusted stubs: serde_json, strings ----------
#[verifier::external_body] pub struct Value { _p: () }
#[verifier::external_body] pub struct SerdeErr { _p: () }
#[verifier::external_body] pub struct SharedStats { _p: () }
#[verifier::external_body] pub struct CriticalWindow { _p: () }
pub uninterp spec fn spec_value_null() -> Value;
#[verifier::external_body] pub fn value_null() -> (r: Value) ensures r == spec_value_null() { unimplemented!() }
#[verifier::external_body] pub fn value_from_err(e: &SerdeErr) -> Option<Value> { unimplemented!() }
#[verifier::external_body] pub fn clone_opt_value(v: &Option<Value>) -> (r: Option<Value>) ensures r == *v { unimplemented!() }
pub uninterp spec fn spec_trim(s: Seq<char>) -> Seq<char>;
#[verifier::external_body] pub fn str_trim<'a>(s: &'a str) -> (r: &'a str) ensures r@ == spec_trim(s@) { s.trim() }
#[verifier::external_body] pub fn str_is_empty(s: &str) -> (r: bool) ensures r == (s@.len() == 0) { s.is_empty() }
#[verifier::external_body] pub fn string_ne_str(a: &String, b: &str) -> (r: bool) ensures r == (a@ != b@) { a != b }
// serde_json::from_str::<Request>
pub uninterp spec fn spec_parse_request(line: Seq<char>) -> Result<Request, SerdeErr>;
#[verifier::external_body] pub fn parse_request(line: &str) -> (r: Result<Request, SerdeErr>) ensures r == spec_parse_request(line@) { unimplemented!() }
// ErrorObject::new(code, impl Into<String>)  (message text dropped, R2)
#[verifier::external_body] pub fn error_object_new(code: i32) -> (r: ErrorObject) ensures r.code == code { unimplemented!() }
// handle_method: `match method { "set_mode" => .. }` + JSON parameter extraction: outside the subset.
// ASSUMED (unchecked): it returns Ok(result) or Err with code -32601 / -32602 / -32603.
pub uninterp spec fn spec_handle(method: Seq<char>, params: &Value) -> Result<Value, ErrorObject>;
#[verifier::external_body]
pub fn handle_method(config: &DynamicConfig, stats: Option<&SharedStats>, cw: Option<&CriticalWindow>, method: &String, params: &Value) -> (r: Result<Value, ErrorObject>)
    ensures r == spec_handle(method@, params), r is Err ==> (r->Err_0.code == -32601 || r->Err_0.code == -32602 || r->Err_0.code == -32603),
{ unimplemented!() }

// ---------- sequentialised atomic cells ----------
pub struct CellU8 { pub v: u8 }
pub struct CellBool { pub v: bool }
pub struct CellI32 { pub v: i32 }
pub struct CellU64 { pub v: u64 }
impl CellU8 { pub fn new_seq(x: u8) -> (r: Self) ensures r.v == x { CellU8 { v: x } }
    pub fn load_seq(&self) -> (r: u8) ensures r == self.v { self.v }
    pub fn store_seq(&mut self, x: u8) ensures final(self).v == x { self.v = x; } }
impl CellBool { pub fn new_seq(x: bool) -> (r: Self) ensures r.v == x { CellBool { v: x } }
    pub fn load_seq(&self) -> (r: bool) ensures r == self.v { self.v }
    pub fn store_seq(&mut self, x: bool) ensures final(self).v == x { self.v = x; } }
impl CellI32 { pub fn new_seq(x: i32) -> (r: Self) ensures r.v == x { CellI32 { v: x } }
    pub fn load_seq(&self) -> (r: i32) ensures r == self.v { self.v }
    pub fn store_seq(&mut self, x: i32) ensures final(self).v == x { self.v = x; } }
impl CellU64 { pub fn new_seq(x: u64) -> (r: Self) ensures r.v == x { CellU64 { v: x } }
    pub fn load_seq(&self) -> (r: u64) ensures r == self.v { self.v }
    pub fn store_seq(&mut self, x: u64) ensures final(self).v == x { self.v = x; } }

pub fn ident_u8(x: u8) -> (r: u8) ensures r == x { x }
pub fn ident_bool(x: bool) -> (r: bool) ensures r == x { x }
pub fn ident_i32(x: i32) -> (r: i32) ensures r == x { x }
pub fn ident_u64(x: u64) -> (r: u64) ensures r == x { x }
// ---------- spec layer ----------
pub open spec fn clamp_timeout(ms: u64) -> u64 { if ms < 1000 { 1000 } else if ms > 60000 { 60000 } else { ms } }
impl DynamicConfig {
    pub open spec fn wf(&self) -> bool { 1000 <= self.conn_timeout_ms.v <= 60000 }
    pub open spec fn view_snapshot(&self) -> ConfigSnapshot {
        ConfigSnapshot { mode: if self.mode.v == 0 { SchedulingMode::Classic } else { SchedulingMode::Enhanced },
            quality_enabled: self.quality_enabled.v, stall_deselect: self.stall_deselect.v, stall_min_in_flight: self.stall_min_in_flight.v,
            stall_ack_stale_ms: self.stall_ack_stale_ms.v, conn_timeout_ms: self.conn_timeout_ms.v }
    }
}
// what the envelope must answer, as a function of the parsed line and of the handler's verdict
pub open spec fn well_formed_reply(resp: &Response, id: Value) -> bool {
    &&& resp.id == id
    &&& ((resp.result is Some && resp.error is None) || (resp.result is None && resp.error is Some))
}
'''


def _seq_cells(t):
    t = re.sub(r'Arc<AtomicU8>', 'CellU8', t)
    t = re.sub(r'Arc<AtomicBool>', 'CellBool', t)
    t = re.sub(r'Arc<AtomicI32>', 'CellI32', t)
    t = re.sub(r'Arc<AtomicU64>', 'CellU64', t)
    t = re.sub(r'Arc::new\(AtomicU8::new\(', 'CellU8::new_seq(ident_u8(', t)
    t = re.sub(r'Arc::new\(AtomicBool::new\(', 'CellBool::new_seq(ident_bool(', t)
    t = re.sub(r'Arc::new\(AtomicI32::new\(', 'CellI32::new_seq(ident_i32(', t)
    t = re.sub(r'Arc::new\(AtomicU64::new\(', 'CellU64::new_seq(ident_u64(', t)
    t = re.sub(r'\.load\(Ordering::Relaxed\)', '.load_seq()', t)
    t = re.sub(r'\.store\((.+?), Ordering::Relaxed\)', r'.store_seq(\1)', t)
    return t


def _setter(t):
    return _seq_cells(t).replace('(&self,', '(&mut self,')


def _noderive(t):
    t = re.sub(r'#\[derive\([^)]*\)\]\s*', '', t)
    t = re.sub(r'\s*#\[serde\([^\]]*\)\]', '', t)
    return t


def build():
    u = Unit('ctl')
    u.add(prelude.INT)
    u.add(u.consts(K + 'config_snapshot.rs', names=['CONN_TIMEOUT_MS_MIN', 'CONN_TIMEOUT_MS_MAX', 'STALL_MIN_IN_FLIGHT_PACKETS', 'STALL_ACK_STALE_MS']))
    u.add('pub const CONN_TIMEOUT_MS: u64 = 5000;   // srtla_protocol::CONN_TIMEOUT * 1000 (value checked in unit core)\n')
    u.add(u.item(K + 'mode.rs', 'enum', 'SchedulingMode'))
    u.add(impl_block('SchedulingMode', [
        u.fn(K + 'mode.rs', 'as_u8', impl='SchedulingMode', ret='r', ensures=[C('C18.ctl.mode.as_u8', 'r == (if self is Classic { 0u8 } else { 1u8 })')]),
        u.fn(K + 'mode.rs', 'from_u8', impl='SchedulingMode', ret='r', ensures=[C('C18.ctl.mode.from_u8_total_and_inverse', 'r == (if value == 0 { SchedulingMode::Classic } else { SchedulingMode::Enhanced })')]),
    ]))
    u.add(u.item(K + 'config_snapshot.rs', 'struct', 'ConfigSnapshot'))
    u.add(u.item(CF, 'struct', 'DynamicConfig', post=lambda t: _noderive(_seq_cells(t))))
    u.add(u.consts(CT, names=['PARSE_ERROR', 'INVALID_REQUEST', 'METHOD_NOT_FOUND', 'INVALID_PARAMS', 'INTERNAL_ERROR']))
    u.add("pub const JSONRPC_VERSION: &'static str = \"2.0\";\n")
    u.const_names.add('JSONRPC_VERSION')
    u.add(u.item(CT, 'struct', 'Request', post=_noderive))
    u.add(u.item(CT, 'struct', 'Response', post=_noderive))
    u.add(u.item(CT, 'struct', 'ErrorObject', post=_noderive))
    u.add(STUBS)

    SAME = lambda keep: ' && '.join('final(self).%s == old(self).%s' % (f, f) for f in ['mode', 'quality_enabled', 'stall_deselect', 'stall_min_in_flight', 'stall_ack_stale_ms', 'conn_timeout_ms'] if f != keep)
    u.add(impl_block('DynamicConfig', [
        u.fn(CF, 'new', impl='DynamicConfig', ret='r', post_rewrite=[(_seq_cells, None, 1)], ensures=[
            C('C18.ctl.config.new.timeout_in_range', 'r.wf()')]),
        u.fn(CF, 'from_cli', impl='DynamicConfig', ret='r', post_rewrite=[(_seq_cells, None, 1)], ensures=[
            C('C18.ctl.config.from_cli.timeout_clamped', 'r.conn_timeout_ms.v == clamp_timeout(conn_timeout_ms) && r.wf()'),
            'r.mode.v == (if mode is Classic { 0u8 } else { 1u8 })', 'r.quality_enabled.v == !no_quality', 'r.stall_deselect.v == !no_stall_deselect']),
        u.fn(CF, 'snapshot', impl='DynamicConfig', ret='r', post_rewrite=[(_seq_cells, None, 1)], ensures=[
            C('C18.ctl.config.snapshot.shows_the_current_settings', 'r == self.view_snapshot()'),
            C('C18.ctl.config.snapshot.timeout_always_in_1000_60000', 'self.wf() ==> 1000 <= r.conn_timeout_ms <= 60000')]),
        u.fn(CF, 'mode', impl='DynamicConfig', ret='r', post_rewrite=[(_seq_cells, None, 1)], ensures=['r == self.view_snapshot().mode']),
        u.fn(CF, 'set_mode', impl='DynamicConfig', post_rewrite=[(_setter, None, 1)], ensures=[
            C('C18.ctl.config.set_mode.visible_in_the_next_snapshot', 'final(self).view_snapshot().mode == mode'), SAME('mode')]),
        u.fn(CF, 'set_quality_enabled', impl='DynamicConfig', post_rewrite=[(_setter, None, 1)], ensures=[
            C('C18.ctl.config.set_quality.visible_in_the_next_snapshot', 'final(self).view_snapshot().quality_enabled == enabled'), SAME('quality_enabled')]),
        u.fn(CF, 'set_stall_deselect', impl='DynamicConfig', post_rewrite=[(_setter, None, 1)], ensures=[
            C('C18.ctl.config.set_stall_deselect.visible_in_the_next_snapshot', 'final(self).view_snapshot().stall_deselect == enabled'), SAME('stall_deselect')]),
        u.fn(CF, 'set_conn_timeout_ms', impl='DynamicConfig', ret='r', post_rewrite=[(_setter, None, 1)], ensures=[
            C('C18.ctl.config.set_conn_timeout.clamped_to_1000_60000_and_echoed_as_applied', 'r == clamp_timeout(ms) && final(self).conn_timeout_ms.v == r'),
            C('C18.ctl.config.set_conn_timeout.keeps_timeout_in_range', 'final(self).wf()'), SAME('conn_timeout_ms')]),
    ]))

    u.add(impl_block('Response', [
        u.fn(CT, 'ok', impl='Response', ret='r', ensures=[C('C18.ctl.response.ok_has_result_and_no_error', 'r.id == id && r.result == Some(result) && r.error is None')]),
        u.fn(CT, 'err', impl='Response', ret='r', ensures=[C('C18.ctl.response.err_has_error_and_no_result', 'r.id == id && r.result is None && r.error == Some(err)')]),
    ]))

    P = 'spec_parse_request(spec_trim(line@))'
    u.add(u.fn(CT, 'dispatch_inner', ret='r',
               post_rewrite=[('let line = line.trim();', 'let line0 = line; let line = str_trim(line);', 1), ('if line.is_empty() {', 'if str_is_empty(line) {', 1),
                             ('match serde_json::from_str(line) {', 'match parse_request(line) {', 1),
                             ('Value::Null', 'value_null()', None),
                             ('message: "parse error".into(),', 'message: String::new(),', 1), ('data: Some(Value::String(e.to_string())),', 'data: value_from_err(&e),', 1),
                             ('if req.jsonrpc != JSONRPC_VERSION {', 'if string_ne_str(&req.jsonrpc, JSONRPC_VERSION) {', 1),
                             (re.compile(r'return req\.id\.map\(\|id\| \{\s*Response::err\(\s*id,\s*ErrorObject::new\(INVALID_REQUEST, "[^;]*?"\),\s*\)\s*\}\);', re.S),
                              'return (match req.id { Some(id) => Some(Response::err(id, error_object_new(INVALID_REQUEST))), None => None });', 1),
                             ('req.id.clone().unwrap_or(', 'clone_opt_value(&req.id).unwrap_or(', 1),
                             ('let result = handle_method(config, stats, critical_window, &req.method, &req.params);',
                              'let result = handle_method(config, stats, critical_window, &req.method, &req.params);\n    proof { handled = handled + 1; }', 1)],
               ensures=[
                   C('C18.ctl.dispatch.blank_line_gets_no_response', 'spec_trim(line@).len() == 0 ==> r is None'),
                   C('C18.ctl.dispatch.unparsable_line_gets_minus_32700_with_null_id', '''spec_trim(line@).len() != 0 && %s is Err ==> r is Some && r.unwrap().error is Some && r.unwrap().error.unwrap().code == -32700
            && r.unwrap().result is None && r.unwrap().id == spec_value_null()''' % P),
                   C('C18.ctl.dispatch.wrong_version_gets_minus_32600_echoing_the_id', '''spec_trim(line@).len() != 0 && %s is Ok && %s->Ok_0.jsonrpc@ != "2.0"@ ==>
            (match %s->Ok_0.id { Some(id) => r is Some && r.unwrap().id == id && r.unwrap().result is None && r.unwrap().error is Some && r.unwrap().error.unwrap().code == -32600, None => r is None })''' % (P, P, P)),
                   C('C18.ctl.dispatch.request_with_id_gets_exactly_one_well_formed_response_echoing_the_id', '''spec_trim(line@).len() != 0 && %s is Ok && %s->Ok_0.jsonrpc@ == "2.0"@ && %s->Ok_0.id is Some ==>
            r is Some && well_formed_reply(&r.unwrap(), %s->Ok_0.id.unwrap())
            && (match spec_handle(%s->Ok_0.method@, &%s->Ok_0.params) { Ok(v) => r.unwrap().result == Some(v), Err(e) => r.unwrap().error == Some(e) })''' % (P, P, P, P, P, P)),
                   C('C18.ctl.dispatch.notification_gets_no_response', 'spec_trim(line@).len() != 0 && %s is Ok && %s->Ok_0.jsonrpc@ == "2.0"@ && %s->Ok_0.id is None ==> r is None' % (P, P, P)),
               ],
               splices=[('@BEGIN', '    let ghost mut handled: int = 0;', 'after'),
                        ('if is_notification {', '''proof {
        assert(handled == 1);  // @ob C18.ctl.dispatch.notification_is_still_applied
    }''', 'before')]))
    return u
