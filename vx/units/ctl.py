"""Unit `ctl` (C18, partial): the JSON-RPC envelope logic of src/control.rs::dispatch_inner and the runtime
configuration cells of src/config.rs::DynamicConfig.

What the extraction drops / replaces (R15-style, stated):
 * serde_json (parsing a line into a Request, Value, the json! macro), string comparison and trimming are trusted
   UNINTERPRETED stubs.  handle_method / parse_mode are verified bodies: R20 turns the string-literal `match` into an
   if-chain over the trusted `str_eq`; `params.get("k").and_then(Value::as_T).ok_or_else(|| ErrorObject::new(CODE, "msg"))?`
   becomes `json_get_T(params, "k").ok_or(error_object_new(CODE))?` (message text dropped, R2); `json!({ "k": e, .. })`
   becomes a builder chain `json_obj(jfields_push(.., "k", jv(e)))` over uninterpreted JSON constructors, so the KEYS and
   the VALUE EXPRESSIONS of every reply stay in the verified text while JSON encoding itself is trusted.
 * the shared atomics (Arc<AtomicXX>, Ordering::Relaxed) are SEQUENTIALISED: every cell becomes a plain cell, setters take
   `&mut self`.  Concurrent setters / snapshot readers are out of reach."""
import re

from gen import Unit, C, impl_block
from rustlex import match_bracket
import prelude

CT = 'src/control.rs'
CF = 'src/config.rs'
K = 'crates/srtla-core/src/'

STUBS = r'''
// ---------- trusted stubs: serde_json, strings ----------
#[verifier::external_body] pub struct Value { _p: () }
#[verifier::external_body] pub struct SerdeErr { _p: () }
#[verifier::external_body] pub struct SharedStats { _p: () }
#[verifier::external_body] pub struct CriticalWindow { _p: () }
pub uninterp spec fn spec_value_null() -> Value;
#[verifier::external_body] pub fn value_null() -> (r: Value) ensures r == spec_value_null() { unimplemented!() }
#[verifier::external_body] pub fn value_from_err(e: &SerdeErr) -> Option<Value> { unimplemented!() }
#[verifier::external_body] pub fn clone_opt_value(v: &Option<Value>) -> (r: Option<Value>) ensures r == *v { unimplemented!() }
pub uninterp spec fn spec_trim(s: Seq<char>) -> Seq<char>;
#[verifier::external_body] pub fn str_trim<'a>(s: &'a str) -> (r: &'a str) ensures r@ == spec_trim(s@) { s.trim() }
#[verifier::external_body] pub fn str_is_empty(s: &str) -> (r: bool) ensures r == (s@.len() == 0) { s.is_empty() }
#[verifier::external_body] pub fn string_ne_str(a: &String, b: &str) -> (r: bool) ensures r == (a@ != b@) { a != b }
// serde_json::from_str::<Request>
pub uninterp spec fn spec_parse_request(line: Seq<char>) -> Result<Request, SerdeErr>;
#[verifier::external_body] pub fn parse_request(line: &str) -> (r: Result<Request, SerdeErr>) ensures r == spec_parse_request(line@) { unimplemented!() }
// ErrorObject::new(code, impl Into<String>)  (message text dropped, R2)
#[verifier::external_body] pub fn error_object_new(code: i32) -> (r: ErrorObject) ensures r.code == code { unimplemented!() }
// String methods that panic off a UTF-8 character boundary (or past the end): the boundary condition is a precondition (panic model); whether a
// byte offset is a boundary stays uninterpreted, so only an offset the code has CHECKED (is_char_boundary) or 0 / len can be proved safe
pub uninterp spec fn spec_is_char_boundary(s: Seq<char>, n: usize) -> bool;
#[verifier::external_body] pub fn string_is_char_boundary(s: &String, n: usize) -> (r: bool) ensures r == spec_is_char_boundary(s@, n) { s.is_char_boundary(n) }
#[verifier::external_body] pub fn string_truncate(s: &mut String, n: usize)
    requires spec_is_char_boundary(old(s)@, n),  // @panic-model String::truncate
{ s.truncate(n) }
#[verifier::external_body] pub fn string_split_off(s: &mut String, n: usize) -> (r: String)
    requires spec_is_char_boundary(old(s)@, n),  // @panic-model String::split_off
{ s.split_off(n) }
// string equality / JSON parameter access / JSON construction
#[verifier::external_body] pub fn str_eq(a: &str, b: &str) -> (r: bool) ensures r == (a@ == b@) { a == b }
#[verifier::external_body] pub fn string_as_str<'a>(s: &'a String) -> (r: &'a str) ensures r@ == s@ { s.as_str() }
pub uninterp spec fn spec_json_get_str(v: &Value, k: Seq<char>) -> Option<Seq<char>>;
pub uninterp spec fn spec_json_get_bool(v: &Value, k: Seq<char>) -> Option<bool>;
pub uninterp spec fn spec_json_get_u64(v: &Value, k: Seq<char>) -> Option<u64>;
#[verifier::external_body] pub fn json_get_str<'a>(v: &'a Value, k: &str) -> (r: Option<&'a str>)
    ensures (r is Some) == (spec_json_get_str(v, k@) is Some), r is Some ==> r.unwrap()@ == spec_json_get_str(v, k@).unwrap() { unimplemented!() }
#[verifier::external_body] pub fn json_get_bool(v: &Value, k: &str) -> (r: Option<bool>) ensures r == spec_json_get_bool(v, k@) { unimplemented!() }
#[verifier::external_body] pub fn json_get_u64(v: &Value, k: &str) -> (r: Option<u64>) ensures r == spec_json_get_u64(v, k@) { unimplemented!() }
#[verifier::external_body] pub struct JField { _p: () }
#[verifier::external_body] pub struct JFields { _p: () }
pub uninterp spec fn spec_jv<T>(x: T) -> Value;
pub uninterp spec fn spec_jf(k: Seq<char>, v: Value) -> JField;
pub uninterp spec fn spec_json_obj(fs: Seq<JField>) -> Value;
impl JFields { pub uninterp spec fn view(&self) -> Seq<JField>; }
#[verifier::external_body] pub fn jv<T>(x: T) -> (r: Value) ensures r == spec_jv::<T>(x) { unimplemented!() }
#[verifier::external_body] pub fn jfields_new() -> (r: JFields) ensures r@ == Seq::<JField>::empty() { unimplemented!() }
#[verifier::external_body] pub fn jfields_push(fs: JFields, k: &str, v: Value) -> (r: JFields) ensures r@ == fs@.push(spec_jf(k@, v)) { unimplemented!() }
#[verifier::external_body] pub fn json_obj(fs: JFields) -> (r: Value) ensures r == spec_json_obj(fs@) { unimplemented!() }
// Display for SchedulingMode (write! macros: outside the subset) -- ASSUMED to print "classic" / "enhanced"
pub uninterp spec fn spec_mode_string(m: SchedulingMode) -> String;
#[verifier::external_body] pub fn mode_to_string(m: SchedulingMode) -> (r: String) ensures r == spec_mode_string(m) { unimplemented!() }
// CriticalWindow counters, SharedStats::to_json, re-parse of the stats JSON
impl CriticalWindow {
    pub uninterp spec fn spec_windows_received(&self) -> u64;
    pub uninterp spec fn spec_malformed(&self) -> u64;
    #[verifier::external_body] pub fn windows_received(&self) -> (r: u64) ensures r == self.spec_windows_received() { unimplemented!() }
    #[verifier::external_body] pub fn malformed_datagrams(&self) -> (r: u64) ensures r == self.spec_malformed() { unimplemented!() }
}
pub open spec fn spec_cw_counters(cw: Option<&CriticalWindow>) -> (u64, u64) {
    match cw { Some(w) => (w.spec_windows_received(), w.spec_malformed()), None => (0u64, 0u64) }
}
// `critical_window.map(|w| (w.windows_received(), w.malformed_datagrams())).unwrap_or((0, 0))`
#[verifier::external_body] pub fn cw_counters(cw: Option<&CriticalWindow>) -> (r: (u64, u64)) ensures r == spec_cw_counters(cw) { unimplemented!() }
#[verifier::external_body] pub fn stats_to_json(s: &SharedStats) -> String { unimplemented!() }
#[verifier::external_body] pub fn reparse_stats(s: &String) -> (r: Result<Value, ErrorObject>) ensures r is Err ==> r->Err_0.code == INTERNAL_ERROR { unimplemented!() }

// ---------- sequentialised atomic cells ----------
pub struct CellU8 { pub v: u8 }
pub struct CellBool { pub v: bool }
pub struct CellI32 { pub v: i32 }
pub struct CellU64 { pub v: u64 }
impl CellU8 { pub fn new_seq(x: u8) -> (r: Self) ensures r.v == x { CellU8 { v: x } }
    pub fn load_seq(&self) -> (r: u8) ensures r == self.v { self.v }
    pub fn store_seq(&mut self, x: u8) ensures final(self).v == x { self.v = x; } }
impl CellBool { pub fn new_seq(x: bool) -> (r: Self) ensures r.v == x { CellBool { v: x } }
    pub fn load_seq(&self) -> (r: bool) ensures r == self.v { self.v }
    pub fn store_seq(&mut self, x: bool) ensures final(self).v == x { self.v = x; } }
impl CellI32 { pub fn new_seq(x: i32) -> (r: Self) ensures r.v == x { CellI32 { v: x } }
    pub fn load_seq(&self) -> (r: i32) ensures r == self.v { self.v }
    pub fn store_seq(&mut self, x: i32) ensures final(self).v == x { self.v = x; } }
impl CellU64 { pub fn new_seq(x: u64) -> (r: Self) ensures r.v == x { CellU64 { v: x } }
    pub fn load_seq(&self) -> (r: u64) ensures r == self.v { self.v }
    pub fn store_seq(&mut self, x: u64) ensures final(self).v == x { self.v = x; } }

pub fn ident_u8(x: u8) -> (r: u8) ensures r == x { x }
pub fn ident_bool(x: bool) -> (r: bool) ensures r == x { x }
pub fn ident_i32(x: i32) -> (r: i32) ensures r == x { x }
pub fn ident_u64(x: u64) -> (r: u64) ensures r == x { x }
// ---------- spec layer ----------
pub open spec fn clamp_timeout(ms: u64) -> u64 { if ms < 1000 { 1000 } else if ms > 60000 { 60000 } else { ms } }
impl DynamicConfig {
    pub open spec fn wf(&self) -> bool { 1000 <= self.conn_timeout_ms.v <= 60000 }
    pub open spec fn view_snapshot(&self) -> ConfigSnapshot {
        ConfigSnapshot { mode: if self.mode.v == 0 { SchedulingMode::Classic } else { SchedulingMode::Enhanced },
            quality_enabled: self.quality_enabled.v, stall_deselect: self.stall_deselect.v, stall_min_in_flight: self.stall_min_in_flight.v,
            stall_ack_stale_ms: self.stall_ack_stale_ms.v, conn_timeout_ms: self.conn_timeout_ms.v }
    }
}

// ---------- handle_method: what each method must do (C18) ----------
pub open spec fn valid_mode_name(s: Seq<char>) -> bool { s == "classic"@ || s == "enhanced"@ }
pub open spec fn mode_of_name(s: Seq<char>) -> SchedulingMode { if s == "classic"@ { SchedulingMode::Classic } else { SchedulingMode::Enhanced } }
pub open spec fn is_plain_method(m: Seq<char>) -> bool {
    m == "set_mode"@ || m == "set_quality"@ || m == "set_stall_deselect"@ || m == "set_conn_timeout"@ || m == "get_status"@ || m == "get_stats"@
}
pub open spec fn spec_status_json(snap: ConfigSnapshot, c: (u64, u64)) -> Value {
    spec_json_obj(Seq::<JField>::empty()
        .push(spec_jf("mode"@, spec_jv(spec_mode_string(snap.mode)))).push(spec_jf("quality_enabled"@, spec_jv(snap.quality_enabled)))
        .push(spec_jf("stall_deselect"@, spec_jv(snap.stall_deselect))).push(spec_jf("stall_min_in_flight"@, spec_jv(snap.stall_min_in_flight)))
        .push(spec_jf("stall_ack_stale_ms"@, spec_jv(snap.stall_ack_stale_ms))).push(spec_jf("conn_timeout_ms"@, spec_jv(snap.conn_timeout_ms)))
        .push(spec_jf("critical_windows_received"@, spec_jv(c.0))).push(spec_jf("critical_malformed_datagrams"@, spec_jv(c.1))))
}
pub open spec fn hp_unknown(o: &DynamicConfig, n: &DynamicConfig, m: Seq<char>, r: Result<Value, ErrorObject>) -> bool {
    !is_plain_method(m) ==> r is Err && r->Err_0.code == -32601 && *n == *o
}
pub open spec fn hp_bad_params(o: &DynamicConfig, n: &DynamicConfig, m: Seq<char>, p: &Value, r: Result<Value, ErrorObject>) -> bool {
    ((m == "set_mode"@ && (spec_json_get_str(p, "mode"@) is None || !valid_mode_name(spec_json_get_str(p, "mode"@).unwrap())))
        || (m == "set_quality"@ && spec_json_get_bool(p, "enabled"@) is None)
        || (m == "set_stall_deselect"@ && spec_json_get_bool(p, "enabled"@) is None)
        || (m == "set_conn_timeout"@ && spec_json_get_u64(p, "ms"@) is None))
    ==> r is Err && r->Err_0.code == -32602 && *n == *o
}
pub open spec fn hp_set_mode(o: &DynamicConfig, n: &DynamicConfig, m: Seq<char>, p: &Value, r: Result<Value, ErrorObject>) -> bool {
    m == "set_mode"@ && spec_json_get_str(p, "mode"@) is Some && valid_mode_name(spec_json_get_str(p, "mode"@).unwrap()) ==> {
        let md = mode_of_name(spec_json_get_str(p, "mode"@).unwrap());
        &&& r is Ok
        &&& n.view_snapshot() == (ConfigSnapshot { mode: md, ..o.view_snapshot() })
        &&& r->Ok_0 == spec_json_obj(seq![spec_jf("mode"@, spec_jv(spec_mode_string(md)))])
    }
}
pub open spec fn hp_set_quality(o: &DynamicConfig, n: &DynamicConfig, m: Seq<char>, p: &Value, r: Result<Value, ErrorObject>) -> bool {
    m == "set_quality"@ && spec_json_get_bool(p, "enabled"@) is Some ==> {
        let e = spec_json_get_bool(p, "enabled"@).unwrap();
        &&& r is Ok
        &&& n.view_snapshot() == (ConfigSnapshot { quality_enabled: e, ..o.view_snapshot() })
        &&& r->Ok_0 == spec_json_obj(seq![spec_jf("enabled"@, spec_jv(e))])
    }
}
pub open spec fn hp_set_stall(o: &DynamicConfig, n: &DynamicConfig, m: Seq<char>, p: &Value, r: Result<Value, ErrorObject>) -> bool {
    m == "set_stall_deselect"@ && spec_json_get_bool(p, "enabled"@) is Some ==> {
        let e = spec_json_get_bool(p, "enabled"@).unwrap();
        &&& r is Ok
        &&& n.view_snapshot() == (ConfigSnapshot { stall_deselect: e, ..o.view_snapshot() })
        &&& r->Ok_0 == spec_json_obj(seq![spec_jf("enabled"@, spec_jv(e))])
    }
}
pub open spec fn hp_set_timeout(o: &DynamicConfig, n: &DynamicConfig, m: Seq<char>, p: &Value, r: Result<Value, ErrorObject>) -> bool {
    m == "set_conn_timeout"@ && spec_json_get_u64(p, "ms"@) is Some ==> {
        let ms = spec_json_get_u64(p, "ms"@).unwrap();
        &&& r is Ok
        &&& n.view_snapshot() == (ConfigSnapshot { conn_timeout_ms: clamp_timeout(ms), ..o.view_snapshot() })
        &&& r->Ok_0 == spec_json_obj(seq![spec_jf("ms"@, spec_jv(clamp_timeout(ms)))])
    }
}
pub open spec fn hp_get_status(o: &DynamicConfig, n: &DynamicConfig, cw: Option<&CriticalWindow>, m: Seq<char>, r: Result<Value, ErrorObject>) -> bool {
    m == "get_status"@ ==> r is Ok && *n == *o && r->Ok_0 == spec_status_json(o.view_snapshot(), spec_cw_counters(cw))
}
pub open spec fn hp_get_stats(o: &DynamicConfig, n: &DynamicConfig, m: Seq<char>, r: Result<Value, ErrorObject>) -> bool {
    m == "get_stats"@ ==> *n == *o && (r is Err ==> r->Err_0.code == -32603)
}
pub open spec fn hp_wf(o: &DynamicConfig, n: &DynamicConfig) -> bool { o.wf() ==> n.wf() }
// everything the envelope may rely on (and must carry to its own caller)
pub open spec fn handle_post(o: &DynamicConfig, n: &DynamicConfig, cw: Option<&CriticalWindow>, m: Seq<char>, p: &Value, r: Result<Value, ErrorObject>) -> bool {
    &&& hp_unknown(o, n, m, r) &&& hp_bad_params(o, n, m, p, r) &&& hp_set_mode(o, n, m, p, r) &&& hp_set_quality(o, n, m, p, r)
    &&& hp_set_stall(o, n, m, p, r) &&& hp_set_timeout(o, n, m, p, r) &&& hp_get_status(o, n, cw, m, r) &&& hp_get_stats(o, n, m, r) &&& hp_wf(o, n)
}
// what the envelope must answer, as a function of the parsed line and of the handler's verdict
pub open spec fn well_formed_reply(resp: &Response, id: Value) -> bool {
    &&& resp.id == id
    &&& ((resp.result is Some && resp.error is None) || (resp.result is None && resp.error is Some))
}
'''


def _seq_cells(t):
    t = re.sub(r'Arc<AtomicU8>', 'CellU8', t)
    t = re.sub(r'Arc<AtomicBool>', 'CellBool', t)
    t = re.sub(r'Arc<AtomicI32>', 'CellI32', t)
    t = re.sub(r'Arc<AtomicU64>', 'CellU64', t)
    t = re.sub(r'Arc::new\(AtomicU8::new\(', 'CellU8::new_seq(ident_u8(', t)
    t = re.sub(r'Arc::new\(AtomicBool::new\(', 'CellBool::new_seq(ident_bool(', t)
    t = re.sub(r'Arc::new\(AtomicI32::new\(', 'CellI32::new_seq(ident_i32(', t)
    t = re.sub(r'Arc::new\(AtomicU64::new\(', 'CellU64::new_seq(ident_u64(', t)
    t = re.sub(r'\.load\(Ordering::Relaxed\)', '.load_seq()', t)
    t = re.sub(r'\.store\((.+?), Ordering::Relaxed\)', r'.store_seq(\1)', t)
    return t


def _setter(t):
    return _seq_cells(t).replace('(&self,', '(&mut self,')


def _noderive(t):
    t = re.sub(r'#\[derive\([^)]*\)\]\s*', '', t)
    t = re.sub(r'\s*#\[serde\([^\]]*\)\]', '', t)
    return t


def _json_macro(t):
    """`json!({ "k": e, .. })` / `serde_json::json!(..)` -> json_obj(jfields_push(.. jfields_new() .., "k", jv(e)))  (keys and value expressions kept)."""
    from rustlex import split_top
    n = 0
    while True:
        m = re.search(r'(?:serde_json::)?json!\(', t)
        if not m:
            return t
        op = m.end() - 1
        cp = match_bracket(t, op, '(', ')')
        inner = t[op + 1:cp].strip()
        assert inner.startswith('{') and inner.endswith('}'), inner
        acc = 'jfields_new()'
        for part in split_top(inner[1:-1], ','):
            part = part.strip()
            if not part:
                continue
            mk = re.match(r'("[^"]*")\s*:\s*(.*)$', part, re.S)
            assert mk, part
            acc = 'jfields_push(%s, %s, jv(%s))' % (acc, mk.group(1), mk.group(2).strip())
        t = t[:m.start()] + 'json_obj(' + acc + ')' + t[cp + 1:]
        n += 1


def _params(t):
    t = re.sub(r'params\s*\.get\(("\w+")\)\s*\.and_then\(Value::as_(str|bool|u64)\)\s*\.ok_or_else\(\|\| ErrorObject::new\((\w+), "[^"]*"\)\)\?',
               r'json_get_\2(params, \1).ok_or(error_object_new(\3))?', t)
    return _errnew(t)


def _errnew(t):
    """ErrorObject::new(CODE, <message>) -> error_object_new(CODE): the message text is dropped (R2), the code is kept."""
    return re.sub(r'ErrorObject::new\(\s*(\w+),\s*(?:String::new\(\)|"(?:[^"\\]|\\.)*")\s*,?\s*\)', r'error_object_new(\1)', t)


def _handle_method(t):
    import rules
    t, n = rules.r20_str_match(t, 'method')
    assert n == 8, n
    t = _params(t)
    t = re.sub(r'(\w+(?:\.\w+)?)\.to_string\(\)', r'mode_to_string(\1)', t)
    t = _json_macro(t)
    t, k = re.subn(r'critical_window\s*\.map\(\|w\| \(w\.windows_received\(\), w\.malformed_datagrams\(\)\)\)\s*\.unwrap_or\(\(0, 0\)\)', 'cw_counters(critical_window)', t)
    t, k = re.subn(r'stats\s*\.ok_or_else\(\|\| error_object_new\(INTERNAL_ERROR\)\)\?', 'stats.ok_or(error_object_new(INTERNAL_ERROR))?', t)
    assert k == 1
    t, k = re.subn(r'stats\.to_json\(\)', 'stats_to_json(stats)', t)
    assert k == 1
    m = re.search(r'serde_json::from_str\(&json_str\)\.map_err\(', t)
    cp = match_bracket(t, m.end() - 1, '(', ')')
    t = t[:m.start()] + 'reparse_stats(&json_str)' + t[cp + 1:]
    t = t.replace('config: &DynamicConfig', 'config: &mut DynamicConfig')
    return t


def build():
    u = Unit('ctl')
    u.add(prelude.INT)
    u.add(u.consts(K + 'config_snapshot.rs', names=['CONN_TIMEOUT_MS_MIN', 'CONN_TIMEOUT_MS_MAX', 'STALL_MIN_IN_FLIGHT_PACKETS', 'STALL_ACK_STALE_MS']))
    u.add('pub const CONN_TIMEOUT_MS: u64 = 5000;   // srtla_protocol::CONN_TIMEOUT * 1000 (value checked in unit core)\n')
    u.const_names.add('CONN_TIMEOUT_MS')
    u.add(u.item(K + 'mode.rs', 'enum', 'SchedulingMode'))
    u.add(impl_block('SchedulingMode', [
        u.fn(K + 'mode.rs', 'as_u8', impl='SchedulingMode', ret='r', ensures=[C('C18.ctl.mode.as_u8', 'r == (if self is Classic { 0u8 } else { 1u8 })')]),
        u.fn(K + 'mode.rs', 'is_classic', impl='SchedulingMode', ret='r', ensures=['r == (self is Classic)']),
        u.fn(K + 'mode.rs', 'from_u8', impl='SchedulingMode', ret='r', ensures=[C('C18.ctl.mode.from_u8_total_and_inverse', 'r == (if value == 0 { SchedulingMode::Classic } else { SchedulingMode::Enhanced })')]),
    ]))
    u.add(u.item(K + 'config_snapshot.rs', 'struct', 'ConfigSnapshot'))
    u.add(impl_block('ConfigSnapshot', [
        u.fn(K + 'config_snapshot.rs', 'effective_quality_enabled', impl='ConfigSnapshot', ret='r',
             ensures=['r == (self.quality_enabled && !(self.mode is Classic))']),
    ]))
    u.add(u.item(CF, 'struct', 'DynamicConfig', post=lambda t: _noderive(_seq_cells(t))))
    u.add(u.consts(CT, names=['PARSE_ERROR', 'INVALID_REQUEST', 'METHOD_NOT_FOUND', 'INVALID_PARAMS', 'INTERNAL_ERROR']))
    u.add("pub const JSONRPC_VERSION: &'static str = \"2.0\";\n")
    u.const_names.add('JSONRPC_VERSION')
    # serde is trusted (parsing a line into a Request is an uninterpreted function), so HOW the derive is configured is part of the trusted
    # base: the attribute set of Request / Response / ErrorObject must be the audited one, otherwise nothing about parsing can be claimed
    for ty, want in (('Request', ['#[derive(Debug, Deserialize)]', '#[serde(default)]', '#[serde(default)]']),):
        raw, _ = u.raw(CT, 'struct', ty)
        got = re.findall(r'#\[[^\]]*\]', raw)
        if got != want:
            from gen import LostAnchor
            raise LostAnchor('audit of %s: derive / serde attributes changed (%s); the serde_json stub no longer describes how a line is parsed' % (ty, ' '.join(got)))
    u.add(u.item(CT, 'struct', 'Request', post=_noderive))
    u.add(u.item(CT, 'struct', 'Response', post=_noderive))
    u.add(u.item(CT, 'struct', 'ErrorObject', post=_noderive))
    u.add(STUBS)

    SAME = lambda keep: ' && '.join('final(self).%s == old(self).%s' % (f, f) for f in ['mode', 'quality_enabled', 'stall_deselect', 'stall_min_in_flight', 'stall_ack_stale_ms', 'conn_timeout_ms'] if f != keep)
    u.add(impl_block('DynamicConfig', [
        u.fn(CF, 'new', impl='DynamicConfig', ret='r', post_rewrite=[(_seq_cells, None, 1)], ensures=[
            C('C18.ctl.config.new.timeout_in_range', 'r.wf()')]),
        u.fn(CF, 'from_cli', impl='DynamicConfig', ret='r', post_rewrite=[(_seq_cells, None, 1)], ensures=[
            C('C18.ctl.config.from_cli.timeout_clamped', 'r.conn_timeout_ms.v == clamp_timeout(conn_timeout_ms) && r.wf()'),
            'r.mode.v == (if mode is Classic { 0u8 } else { 1u8 })', 'r.quality_enabled.v == !no_quality', 'r.stall_deselect.v == !no_stall_deselect']),
        u.fn(CF, 'snapshot', impl='DynamicConfig', ret='r', post_rewrite=[(_seq_cells, None, 1)], ensures=[
            C('C18.ctl.config.snapshot.shows_the_current_settings', 'r == self.view_snapshot()'),
            C('C18.ctl.config.snapshot.timeout_always_in_1000_60000', 'self.wf() ==> 1000 <= r.conn_timeout_ms <= 60000')]),
        u.fn(CF, 'mode', impl='DynamicConfig', ret='r', post_rewrite=[(_seq_cells, None, 1)], ensures=['r == self.view_snapshot().mode']),
        u.fn(CF, 'set_mode', impl='DynamicConfig', post_rewrite=[(_setter, None, 1)], ensures=[
            C('C18.ctl.config.set_mode.visible_in_the_next_snapshot', 'final(self).view_snapshot().mode == mode'), SAME('mode')]),
        u.fn(CF, 'set_quality_enabled', impl='DynamicConfig', post_rewrite=[(_setter, None, 1)], ensures=[
            C('C18.ctl.config.set_quality.visible_in_the_next_snapshot', 'final(self).view_snapshot().quality_enabled == enabled'), SAME('quality_enabled')]),
        u.fn(CF, 'set_stall_deselect', impl='DynamicConfig', post_rewrite=[(_setter, None, 1)], ensures=[
            C('C18.ctl.config.set_stall_deselect.visible_in_the_next_snapshot', 'final(self).view_snapshot().stall_deselect == enabled'), SAME('stall_deselect')]),
        u.fn(CF, 'set_conn_timeout_ms', impl='DynamicConfig', ret='r', post_rewrite=[(_setter, None, 1)], ensures=[
            C('C08+C18.ctl.config.set_conn_timeout.clamped_to_1000_60000_and_echoed_as_applied', 'r == clamp_timeout(ms) && final(self).conn_timeout_ms.v == r'),
            C('C18.ctl.config.set_conn_timeout.keeps_timeout_in_range', 'final(self).wf()'), SAME('conn_timeout_ms')]),
    ]))

    u.add(impl_block('ErrorObject', [
        u.fn(CT, 'new', impl='ErrorObject', ret='r', props=('C18',),
             post_rewrite=[('message: impl Into<String>', 'message: String', 1), (re.compile(r'\bmessage\.into\(\)'), 'message', None),
                           (re.compile(r'\b(\w+)\.truncate\('), r'string_truncate(&mut \1, ', None), (re.compile(r'\b(\w+)\.split_off\('), r'string_split_off(&mut \1, ', None),
                           (re.compile(r'\b(\w+)\.is_char_boundary\('), r'string_is_char_boundary(&\1, ', None)],
             ensures=[C('C18.ctl.error_object.new_keeps_the_code', 'r.code == code && r.data is None')]),
    ]))
    u.add(impl_block('Response', [
        u.fn(CT, 'ok', impl='Response', ret='r', post_rewrite=[('Value::Null', 'value_null()', None)], ensures=[C('C18.ctl.response.ok_has_result_and_no_error', 'r.id == id && r.result == Some(result) && r.error is None')]),
        u.fn(CT, 'err', impl='Response', ret='r', post_rewrite=[('Value::Null', 'value_null()', None)], ensures=[C('C18.ctl.response.err_has_error_and_no_result', 'r.id == id && r.result is None && r.error == Some(err)')]),
    ]))


    u.add(r"""
pub proof fn lemma_method_names_distinct()
    ensures "set_mode"@.len() == 8, "set_quality"@.len() == 11, "set_stall_deselect"@.len() == 18, "set_conn_timeout"@.len() == 16, "get_status"@.len() == 10,
        "get_stats"@.len() == 9, "subscribe"@.len() == 9, "unsubscribe"@.len() == 11, "classic"@.len() == 7, "enhanced"@.len() == 8, "get_subscription_count"@.len() == 22,
        "set_quality"@ != "unsubscribe"@, "get_stats"@ != "subscribe"@,
{
    reveal_strlit("set_mode"); reveal_strlit("set_quality"); reveal_strlit("set_stall_deselect"); reveal_strlit("set_conn_timeout");
    reveal_strlit("get_status"); reveal_strlit("get_stats"); reveal_strlit("subscribe"); reveal_strlit("unsubscribe");
    reveal_strlit("classic"); reveal_strlit("enhanced"); reveal_strlit("get_subscription_count");
    assert("set_quality"@[0] != "unsubscribe"@[0]);
    assert("get_stats"@[0] != "subscribe"@[0]);
}
""")
    import rules
    def _pm(t):
        # `match s { "classic" => .. }` -> if-chain over str_eq (R20); the same function written as an `if s == "lit"` chain gets the comparisons
        # rewritten directly
        try:
            t = rules.r20_str_match(t, 's')[0]
        except rules.RuleError:
            t = re.sub(r'\b(\w+) == ("(?:[^"\\]|\\.)*")', r'str_eq(\1, \2)', t)
            t = re.sub(r'\b(\w+) != ("(?:[^"\\]|\\.)*")', r'!str_eq(\1, \2)', t)
        return _params(t)
    u.add(u.fn(CT, 'parse_mode', props=('C18',), ret='r', post_rewrite=[(_pm, None, 1)], ensures=[
        C('C18.ctl.parse_mode.accepts_exactly_classic_and_enhanced_else_minus_32602',
          'match r { Ok(md) => valid_mode_name(s@) && md == mode_of_name(s@), Err(e) => !valid_mode_name(s@) && e.code == -32602 }')],
        splices=[('@BEGIN', '    proof { lemma_method_names_distinct(); }', 'after')]))
    HP = lambda f, extra='': '%s(old(config), final(config), %smethod@, %sr)' % (f, 'critical_window, ' if f == 'hp_get_status' else '', extra)
    u.add(u.fn(CT, 'handle_method', props=('C18',), ret='r', post_rewrite=[(_handle_method, None, 1)], ensures=[
        C('C18.ctl.handle.unknown_and_subscription_methods_get_minus_32601_and_change_nothing', HP('hp_unknown')),
        C('C18.ctl.handle.missing_or_ill_typed_parameters_get_minus_32602_and_change_nothing', HP('hp_bad_params', 'params, ')),
        C('C18.ctl.handle.set_mode_takes_effect_in_the_snapshot_and_echoes_the_mode', HP('hp_set_mode', 'params, ')),
        C('C18.ctl.handle.set_quality_takes_effect_in_the_snapshot', HP('hp_set_quality', 'params, ')),
        C('C18.ctl.handle.set_stall_deselect_takes_effect_in_the_snapshot', HP('hp_set_stall', 'params, ')),
        C('C18.ctl.handle.set_conn_timeout_applies_and_echoes_the_clamped_value', HP('hp_set_timeout', 'params, ')),
        C('C18.ctl.handle.get_status_reports_the_current_snapshot_and_changes_nothing', HP('hp_get_status')),
        C('C18.ctl.handle.get_stats_changes_nothing_and_fails_only_with_minus_32603', HP('hp_get_stats')),
        C('C18.ctl.handle.timeout_stays_in_1000_60000', 'hp_wf(old(config), final(config))'),
        # the conjunction of the above under one name: gives call sites the witness term for their `exists hr`
        'handle_post(old(config), final(config), critical_window, method@, params, r)',
    ], splices=[('@BEGIN', '    proof { lemma_method_names_distinct(); }', 'after')]))

    P = 'spec_parse_request(spec_trim(line@))'
    HPOST = 'handle_post(old(config), final(config), critical_window, %s->Ok_0.method@, &%s->Ok_0.params, hr)' % (P, P)

    def envelope(fn, cond=None):
        """the JSON-RPC envelope contract shared by dispatch_inner and dispatch_async; `cond` restricts the clauses that speak about
        handle_method to the requests the two entry points must answer identically."""
        pre = '' if cond is None else '(%s) ==> ' % cond
        T = lambda n: 'C18.ctl.%s.%s' % (fn, n)
        return [
            C(T('blank_line_gets_no_response'), 'spec_trim(line@).len() == 0 ==> r is None && *final(config) == *old(config)'),
            C(T('unparsable_line_gets_minus_32700_with_null_id'), """spec_trim(line@).len() != 0 && %s is Err ==> r is Some && r.unwrap().error is Some && r.unwrap().error.unwrap().code == -32700
            && r.unwrap().result is None && r.unwrap().id == spec_value_null() && *final(config) == *old(config)""" % P),
            C(T('wrong_version_gets_minus_32600_echoing_the_id'), """spec_trim(line@).len() != 0 && %s is Ok && %s->Ok_0.jsonrpc@ != "2.0"@ ==> *final(config) == *old(config) &&
            (match %s->Ok_0.id { Some(id) => r is Some && r.unwrap().id == id && r.unwrap().result is None && r.unwrap().error is Some && r.unwrap().error.unwrap().code == -32600, None => r is None })""" % (P, P, P)),
            C(T('request_with_id_gets_exactly_one_well_formed_response_echoing_the_id'),
              """spec_trim(line@).len() != 0 && %s is Ok && %s->Ok_0.jsonrpc@ == "2.0"@ && %s->Ok_0.id is Some ==>
            r is Some && well_formed_reply(&r.unwrap(), %s->Ok_0.id.unwrap())""" % (P, P, P, P)),
            C(T('response_carries_the_verdict_of_handle_method'),
              """spec_trim(line@).len() != 0 && %s is Ok && %s->Ok_0.jsonrpc@ == "2.0"@ && %s->Ok_0.id is Some ==> %s
            r is Some && exists|hr: Result<Value, ErrorObject>| #[trigger] %s && (match hr { Ok(v) => r.unwrap().result == Some(v), Err(e) => r.unwrap().error == Some(e) })""" % (P, P, P, pre, HPOST)),
            C(T('notification_gets_no_response'), 'spec_trim(line@).len() != 0 && %s is Ok && %s->Ok_0.jsonrpc@ == "2.0"@ && %s->Ok_0.id is None ==> r is None' % (P, P, P)),
            C(T('notification_is_still_applied'),
              'spec_trim(line@).len() != 0 && %s is Ok && %s->Ok_0.jsonrpc@ == "2.0"@ && %s->Ok_0.id is None ==> %s exists|hr: Result<Value, ErrorObject>| #[trigger] %s' % (P, P, P, pre, HPOST)),
            C(T('timeout_stays_in_1000_60000'), 'old(config).wf() ==> final(config).wf()'),
        ]

    ENVELOPE_RW = [('config: &DynamicConfig', 'config: &mut DynamicConfig', 1),
                   ('let line = line.trim();', 'let line0 = line; let line = str_trim(line);', 1), ('if line.is_empty() {', 'if str_is_empty(line) {', 1),
                   ('match serde_json::from_str(line) {', 'match parse_request(line) {', 1),
                   ('Value::Null', 'value_null()', None),
                   ('message: "parse error".into(),', 'message: String::new(),', 1), ('data: Some(Value::String(e.to_string())),', 'data: value_from_err(&e),', 1),
                   ('if req.jsonrpc != JSONRPC_VERSION {', 'if string_ne_str(&req.jsonrpc, JSONRPC_VERSION) {', 1),
                   (re.compile(r'return req\.id\.map\(\|id\| \{\s*Response::err\(\s*id,\s*ErrorObject::new\(INVALID_REQUEST, "[^;]*?"\),\s*\)\s*\}\);', re.S),
                    'return (match req.id { Some(id) => Some(Response::err(id, error_object_new(INVALID_REQUEST))), None => None });', None),
                   ('req.id.clone().unwrap_or(', 'clone_opt_value(&req.id).unwrap_or(', None),
                   ('handle_method(config, stats, critical_window, &req.method, &req.params)', 'handle_method(config, stats, critical_window, string_as_str(&req.method), &req.params)', 1),
                   (_errnew, None, 0)]
    u.add(u.fn(CT, 'dispatch_inner', props=('C18',), ret='r', post_rewrite=ENVELOPE_RW, ensures=envelope('dispatch')))
    # stdin entry point: a plain forwarder
    u.add(u.fn(CT, 'dispatch', props=('C18',), ret='r', post_rewrite=[('config: &DynamicConfig', 'config: &mut DynamicConfig', 1)], ensures=envelope('dispatch_stdin')))
    # socket entry point (async erased, R15): same envelope; identical handler verdict for every method unless a subscription context is present
    # AND the method is one of the three subscription methods
    u.add(r"""
// per-connection subscription context: opaque, passed by value (was Option<&mut SubscriptionContext<'_>>); subscription handlers are trusted stubs
#[verifier::external_body] pub struct SubCtx { _p: () }
#[verifier::external_body] pub fn handle_subscribe(ctx: SubCtx, params: &Value) -> Result<Value, ErrorObject> { unimplemented!() }
#[verifier::external_body] pub fn handle_unsubscribe(ctx: SubCtx, params: &Value) -> Result<Value, ErrorObject> { unimplemented!() }
#[verifier::external_body] pub fn subctx_hub_len(ctx: &SubCtx) -> usize { unimplemented!() }
pub open spec fn is_subscription_method(m: Seq<char>) -> bool { m == "subscribe"@ || m == "unsubscribe"@ || m == "get_subscription_count"@ }
""")
    u.add(u.fn(CT, 'dispatch_async', props=('C18',), ret='r', erase_async=True,
               post_rewrite=ENVELOPE_RW + [("subscription_ctx: Option<&mut SubscriptionContext<'_>>", 'subscription_ctx: Option<SubCtx>', 1),
                                           ('req.method.as_str()', 'string_as_str(&req.method)', 1),
                                           (lambda t: rules.r20_str_opt_match(t, 'string_as_str(&req.method)', 'subscription_ctx')[0], None, 1),
                                           ('ctx.hub.len()', 'subctx_hub_len(&ctx)', 1), (_json_macro, None, 1)],
               ensures=envelope('dispatch_async', 'subscription_ctx is None || !is_subscription_method(%s->Ok_0.method@)' % P) + [
                   C('C18.ctl.dispatch_async.subscription_methods_do_not_touch_the_configuration',
                     'spec_trim(line@).len() != 0 && %s is Ok && subscription_ctx is Some && is_subscription_method(%s->Ok_0.method@) ==> *final(config) == *old(config)' % (P, P))],
               splices=[('@BEGIN', '    proof { lemma_method_names_distinct(); }', 'after')]))
    # composition: the reply to get_status after a successful set_conn_timeout shows the clamped value (both through the envelope-level handler contract)
    u.add(r"""
pub proof fn lemma_successful_set_is_visible_in_the_next_status(c0: &DynamicConfig, c1: &DynamicConfig, c2: &DynamicConfig, cw: Option<&CriticalWindow>,
    p1: &Value, r1: Result<Value, ErrorObject>, p2: &Value, r2: Result<Value, ErrorObject>, ms: u64)
    requires handle_post(c0, c1, cw, "set_conn_timeout"@, p1, r1), spec_json_get_u64(p1, "ms"@) == Some(ms), handle_post(c1, c2, cw, "get_status"@, p2, r2),
    ensures r1 is Ok, r2 is Ok,
        r2->Ok_0 == spec_status_json(ConfigSnapshot { conn_timeout_ms: clamp_timeout(ms), ..c0.view_snapshot() }, spec_cw_counters(cw)),  // @ob C18.ctl.lemma.successful_set_conn_timeout_is_visible_in_the_next_status
        1000 <= c2.view_snapshot().conn_timeout_ms <= 60000,
{
    lemma_method_names_distinct();
}
""")
    return u
