"""Unit `reload`: IP-list reload guard (C19), src/sender/reload.rs::analyze_ip_reload_text.
String handling (str::lines, trim, is_empty, IpAddr::from_str) is UNINTERPRETED: the stubs only say that each is a
deterministic function of its input.  What is proved is the decision logic on top of them."""
import re

from gen import Unit, C
import prelude

RL = 'src/sender/reload.rs'

STUBS = r'''
#[verifier::external_type_specification] #[verifier::external_body] pub struct ExIpAddr(std::net::IpAddr);
#[verifier::external_body] pub struct AddrParseErr { _p: () }
// ---- trusted string functions (uninterpreted) ----
pub uninterp spec fn spec_lines(text: Seq<char>) -> Seq<Seq<char>>;      // str::lines
pub uninterp spec fn spec_trim(s: Seq<char>) -> Seq<char>;               // str::trim
pub uninterp spec fn spec_parse_ip(s: Seq<char>) -> Option<IpAddr>;      // IpAddr::from_str(..).ok()
#[verifier::external_body] pub fn str_lines<'a>(text: &'a str) -> (r: Vec<&'a str>)
    ensures r.len() == spec_lines(text@).len(), forall|i: int| 0 <= i < r.len() ==> (#[trigger] r[i])@ == spec_lines(text@)[i]
{ text.lines().collect() }
#[verifier::external_body] pub fn str_trim<'a>(s: &'a str) -> (r: &'a str) ensures r@ == spec_trim(s@) { s.trim() }
#[verifier::external_body] pub fn str_is_empty(s: &str) -> (r: bool) ensures r == (s@.len() == 0) { s.is_empty() }
#[verifier::external_body] pub fn ip_from_str(s: &str) -> (r: Result<IpAddr, AddrParseErr>)
    ensures (r is Ok) == (spec_parse_ip(s@) is Some), r is Ok ==> r->Ok_0 == spec_parse_ip(s@).unwrap()
{ unimplemented!() }

// ---- the file: std::fs::read_to_string gives the WHOLE content of the file at `path`, or an error (uninterpreted environment) ----
#[verifier::external_body] pub struct FsErr { _p: () }
pub uninterp spec fn spec_file(path: Seq<char>) -> Option<Seq<char>>;
#[verifier::external_body] pub fn fs_read_to_string(path: &str) -> (r: Result<String, FsErr>)
    ensures (r is Ok) == (spec_file(path@) is Some), r is Ok ==> r->Ok_0@ == spec_file(path@).unwrap()
{ unimplemented!() }
// ---- spec: what the file means ----
pub open spec fn blank(l: Seq<char>) -> bool { spec_trim(l).len() == 0 }
pub open spec fn parsable(l: Seq<char>) -> bool { !blank(l) && spec_parse_ip(spec_trim(l)) is Some }
pub open spec fn invalid(l: Seq<char>) -> bool { !blank(l) && spec_parse_ip(spec_trim(l)) is None }
// the parsable lines among the first n, in file order
pub open spec fn parsed(lines: Seq<Seq<char>>, n: int) -> Seq<IpAddr>
    decreases n
{
    if n <= 0 { Seq::empty() } else if parsable(lines[n - 1]) { parsed(lines, n - 1).push(spec_parse_ip(spec_trim(lines[n - 1])).unwrap()) } else { parsed(lines, n - 1) }
}
pub open spec fn has_content(lines: Seq<Seq<char>>, n: int) -> bool { exists|i: int| 0 <= i < n && !blank(#[trigger] lines[i]) }
// 1-based number of the first non-blank unparsable line among the first n
pub open spec fn first_invalid(lines: Seq<Seq<char>>, n: int) -> Option<usize>
    decreases n
{
    if n <= 0 { None } else { match first_invalid(lines, n - 1) { Some(k) => Some(k), None => if invalid(lines[n - 1]) { Some(n as usize) } else { None } } }
}
'''


def _strip_derive(t):
    return re.sub(r'#\[derive\([^)]*\)\]\s*', '', t)


def build():
    u = Unit('reload')
    u.use('use std::net::IpAddr;')
    u.add(prelude.INT)
    u.add(STUBS)
    u.add(u.item(RL, 'enum', 'ReloadRefusal', post=_strip_derive))
    u.add(u.item(RL, 'enum', 'IpReload', post=_strip_derive))
    L = 'spec_lines(text@)'
    N = 'spec_lines(text@).len() as int'
    u.add(u.fn(RL, 'analyze_ip_reload_text', sub='reload', ret='r', props=(),
               pre_rewrite=[('for (idx, line) in text.lines().enumerate() {', 'let lines_v = str_lines(text);\n    for (idx, line) in lines_v.iter().enumerate() {', 1),
                            ('let trimmed = line.trim();', 'let trimmed = str_trim(line);', 1),
                            (re.compile(r'\btrimmed\.is_empty\(\)'), 'str_is_empty(trimmed)', None),
                            (re.compile(r'IpAddr::from_str\((\w+)\)'), r'ip_from_str(\1)', None)],
               ensures=[
                   C('C19.reload.refused_iff_no_parsable_address', '(r is Refuse) == (parsed(%s, %s).len() == 0)' % (L, N)),
                   C('C19.reload.applied_list_is_exactly_the_parsable_lines_in_order', 'r is Apply ==> r->ips@ == parsed(%s, %s)' % (L, N)),
                   C('C19.reload.empty_iff_no_content', '(r is Refuse && r->Refuse_0 is Empty) == (parsed(%s, %s).len() == 0 && !has_content(%s, %s))' % (L, N, L, N)),
                   C('C19.reload.first_invalid_line_reported', '''(r is Apply ==> r->Apply_first_invalid_line == first_invalid(%s, %s))
            && (r is Refuse && r->Refuse_0 is NoValidIps ==> first_invalid(%s, %s) is Some && r->Refuse_0->first_invalid_line == first_invalid(%s, %s).unwrap())''' % (L, N, L, N, L, N)),
               ],
               loops={0: dict(inv=[
                   'idx_nx <= lines_v.len()', 'lines_v.len() == %s' % N, 'forall|i: int| 0 <= i < lines_v.len() ==> (#[trigger] lines_v[i])@ == %s[i]' % L,
                   C('C19.reload.applied_list_is_exactly_the_parsable_lines_in_order', 'ips@ == parsed(%s, idx_nx as int)' % L),
                   C('C19.reload.empty_iff_no_content', 'saw_content == has_content(%s, idx_nx as int)' % L),
                   C('C19.reload.first_invalid_line_reported', 'first_invalid_line == first_invalid(%s, idx_nx as int)' % L),
               ], dec='lines_v.len() - idx_nx')},
               splices=[('if ips.is_empty() {', '''proof {
        // saw_content && no parsable line => some line is invalid
        if saw_content && ips.len() == 0 { lemma_content_without_parsed_has_invalid(%s, %s); }
    }''' % (L, N), 'before')]))
    FL = 'spec_lines(spec_file(path@).unwrap())'
    FN = FL + '.len() as int'
    u.add(u.fn(RL, 'analyze_ip_reload', sub='reload', ret='r', props=(),
               pre_rewrite=[('std::fs::read_to_string(path)', 'fs_read_to_string(path)', 1)],
               ensures=[
                   C('C19.reload.file.an_unreadable_file_refuses_the_reload', 'spec_file(path@) is None ==> r is Refuse && r->Refuse_0 is NotFound'),
                   C('C19.reload.file.the_whole_file_is_analysed', '''spec_file(path@) is Some ==> ((r is Refuse) == (parsed(%s, %s).len() == 0))
            && (r is Apply ==> r->ips@ == parsed(%s, %s))''' % (FL, FN, FL, FN)),
               ]))
    # the START-UP consumer of the same parser (src/sender/mod.rs): the list handed to the sender is exactly the parsable lines, in order
    u.add('#[verifier::external_body] pub struct AnyhowError { _p: () }\n#[verifier::external_body] pub fn anyhow_ctx(e: FsErr) -> AnyhowError { unimplemented!() }\n')
    u.add(u.fn('src/sender/mod.rs', 'read_ip_list', sub='reload', ret='r', erase_async=True, props=(),
               pre_rewrite=[(re.compile(r'let text = std::fs::read_to_string\(Path::new\(path\)\)\s*\.context\("[^"]*"\)\?;'),
                             'let text = match fs_read_to_string(path) { Ok(t) => t, Err(e) => { return Err(anyhow_ctx(e)); } };', 1)],
               post_rewrite=[(re.compile(r'\breload::'), '', None), ('-> Result<Vec<IpAddr>>', '-> Result<Vec<IpAddr>, AnyhowError>', 1), ('SmallVec::new()', 'Vec::new()', None)],
               ensures=[
                   C('C19.reload.startup.an_unreadable_file_is_an_error', 'spec_file(path@) is None ==> r is Err'),
                   C('C19.reload.startup.the_start_up_list_is_exactly_the_parsable_lines_in_order', 'spec_file(path@) is Some ==> r is Ok && r->Ok_0@ == parsed(%s, %s)' % (FL, FN)),
               ]))
    u.add(r'''
pub proof fn lemma_content_without_parsed_has_invalid(lines: Seq<Seq<char>>, n: int)
    requires 0 <= n <= lines.len(), has_content(lines, n), parsed(lines, n).len() == 0,
    ensures first_invalid(lines, n) is Some,
    decreases n
{
    if n > 0 {
        if parsable(lines[n - 1]) { assert(parsed(lines, n).len() > 0); }
        else if invalid(lines[n - 1]) { }
        else {
            let w = choose|i: int| 0 <= i < n && !blank(#[trigger] lines[i]);
            assert(w != n - 1);
            assert(has_content(lines, n - 1)) by { assert(0 <= w < n - 1 && !blank(lines[w])); }
            lemma_content_without_parsed_has_invalid(lines, n - 1);
        }
    }
}
''')
    return u
