"""Unit `hk`: the once-per-second housekeeping pass of the shell (src/sender/housekeeping.rs::handle_housekeeping) and
reconnect_uplink (src/sender/connections.rs).  R15: async erased, sockets / reader tasks stubbed.
Serves C07 (REG1 re-sent only on the uplink already outstanding), C08 (torn down only when timed out and a retry is due),
C14 (keepalive on every live link when due), C06/C10 (classic mode never applies time-based recovery)."""
import re

from gen import C, read_src, LostAnchor
from rustlex import match_bracket
import world
import shell
import reg as regunit

HK = 'src/sender/housekeeping.rs'
CN = 'src/sender/connections.rs'

STUBS = r'''
// ---------- housekeeping: I/O stubs (R15) ----------
#[verifier::external_body] pub struct ReaderHandle { _p: () }
#[verifier::external_body] pub struct PacketTx { _p: () }
#[verifier::external_body] pub struct SockArc { _p: () }
#[verifier::external_body] pub fn io_send_258(io: &ConnIo, pkt: &[u8; 258]) -> Result<usize, IoError> { unimplemented!() }
#[verifier::external_body] pub fn io_send_38(io: &ConnIo, pkt: &[u8; 38]) -> Result<usize, IoError> { unimplemented!() }
// socket identity (ghost): which OS socket a ConnIo currently holds / an Arc clone refers to.  A successful re-open installs a NEW socket.
impl ConnIo { pub uninterp spec fn sock_id(&self) -> int; }
impl SockArc { pub uninterp spec fn id(&self) -> int; }
#[verifier::external_body] pub fn io_socket_clone(io: &ConnIo) -> (r: SockArc) ensures r.id() == io.sock_id() { unimplemented!() }
#[verifier::external_body] pub fn restart_reader_for(conn: &SrtlaConnection, s: SockArc, readers: &mut HashMap<u64, ReaderHandle>, tx: &PacketTx) { }
#[verifier::external_body] pub fn reader_is_dead(readers: &HashMap<u64, ReaderHandle>, id: u64) -> bool { unimplemented!() }
#[verifier::external_body] pub fn anyhow_err() -> AnyhowError { unimplemented!() }
#[verifier::external_body]
pub fn conn_io_get_mut<'a>(m: &'a mut ConnIoMap, k: u64) -> (r: Option<&'a mut ConnIo>)
    ensures (r is Some) == old(m)@.contains_key(k), final(m)@.dom() == old(m)@.dom(),
{ m.get_mut(&k) }
// create_uplink_socket + bind + connect + set_nonblocking + BatchUdpSocket::new : socket work only
#[verifier::external_body] pub fn io_reopen_socket(conn: &SrtlaConnection, io: &mut ConnIo) -> (r: Result<(), AnyhowError>)
    ensures r is Ok ==> final(io).sock_id() != old(io).sock_id(), r is Err ==> final(io).sock_id() == old(io).sock_id(),
{ unimplemented!() }

impl SrtlaRegistrationManager {
    // check_probing_complete reads the ambient clock and walks probe_results (min_by_key): outside the subset.
    // Frame (audit): it never touches the REG1/REG2 handshake slots.
    #[verifier::external_body]
    pub fn check_probing_complete(&mut self) -> (r: bool)
        ensures final(self).pending_reg2_idx == old(self).pending_reg2_idx, final(self).srtla_id == old(self).srtla_id,
            final(self).broadcast_reg2_pending == old(self).broadcast_reg2_pending, final(self).active_connections == old(self).active_connections,
            final(self).has_connected == old(self).has_connected,
    { unimplemented!() }
}

// ---------- housekeeping: spec layer ----------
// ghost log of every datagram handed to an uplink socket by this housekeeping pass: (conn_id, bytes)
pub open spec fn offered(sent: Seq<(u64, Seq<u8>)>, id: u64, bytes: Seq<u8>) -> bool { exists|k: int| 0 <= k < sent.len() && #[trigger] sent[k] == (id, bytes) }
pub proof fn lemma_sent_push(s: Seq<(u64, Seq<u8>)>, x: (u64, Seq<u8>))
    ensures offered(s.push(x), x.0, x.1), forall|id: u64, b: Seq<u8>| offered(s, id, b) ==> #[trigger] offered(s.push(x), id, b),
{
    assert(s.push(x)[s.len() as int] == x);
    assert forall|id: u64, b: Seq<u8>| offered(s, id, b) implies #[trigger] offered(s.push(x), id, b) by {
        let k = choose|k: int| 0 <= k < s.len() && #[trigger] s[k] == (id, b);
        assert(s.push(x)[k] == (id, b));
    }
}
pub open spec fn hk_link_wf(c: &SrtlaConnection) -> bool { win_ok(c.window) && c.batch_sender.wf() && (c.phase is Warming ==> c.phase->rtt_probes < 0xffff_ffff) }
pub open spec fn hk_wf(conns: Seq<SrtlaConnection>) -> bool { forall|i: int| 0 <= i < conns.len() ==> hk_link_wf(&#[trigger] conns[i]) }
// the link was NOT torn down by this pass: registration, accounting and liveness stamps are where they were
pub open spec fn link_kept(o: &SrtlaConnection, n: &SrtlaConnection) -> bool {
    &&& n.connected == o.connected && n.conn_id == o.conn_id
    &&& n.packet_log@ == o.packet_log@ && n.in_flight_packets == o.in_flight_packets && n.highest_acked_seq == o.highest_acked_seq
    &&& n.last_received == o.last_received
    &&& (o.phase is Registering) == (n.phase is Registering)
    &&& n.batch_sender.queue == o.batch_sender.queue && n.batch_sender.sequences == o.batch_sender.sequences
}
pub open spec fn retry_due(c: &SrtlaConnection, now: u64) -> bool { c.spec_timed_out(now) && spec_should_reconnect(&c.reconnection, now) }
pub open spec fn keepalive_due(c: &SrtlaConnection, now: u64) -> bool {
    c.connected && !c.spec_timed_out(now) && (c.last_keepalive_sent is None || sub_sat(now, c.last_keepalive_sent.unwrap()) >= 1000)
}
'''


def _reopen(text):
    m = re.search(r'let sock = create_uplink_socket\([\w\.]+\)\?;', text)
    e = re.search(r'io\.socket = Arc::new\(BatchUdpSocket::new\(sock\)\?\);', text)
    if not m or not e:
        return text
    return text[:m.start()] + 'io_reopen_socket(conn, io)?;' + text[e.end():]


def build():
    u = world.build('hk', active=['hk'])
    # the stub of check_probing_complete assumes it never touches the REG1/REG2 handshake slots: audited against the source on every run
    u.audit('crates/srtla-core/src/registration/probing.rs', 'check_probing_complete', impl='SrtlaRegistrationManager', sig=['&mut self'],
            forbid=[r'self\.(pending_reg2_idx|srtla_id|broadcast_reg2_pending|active_connections|has_connected)\s*(=[^=]|\+=|-=|\|=|&=)', r'self\.srtla_id\.\w+\(',
                    r'self\.(handle_reg\w*|reg_driver_pending_sends|reg1_if_ngp_immediate|build_reg1_for|update_active_connections)\('])
    regunit.add_reg(u)
    u.use('use std::net::SocketAddr;')
    u.add(u.item('crates/srtla-core/src/connection/incoming.rs', 'struct', 'SrtlaIncoming'))
    u.add(shell.STUBS)
    shell.add_seqtrack(u)
    u.add(u.consts(HK, names=['GLOBAL_TIMEOUT_MS']))
    u.add(STUBS)

    # ---------------- reconnect_uplink ----------------
    u.add(u.fn(CN, 'reconnect_uplink', sub='hk', ret='r', erase_async=True,
               pre_rewrite=[(_reopen, None, 1)],
               post_rewrite=[('-> Result<()>', '-> Result<(), AnyhowError>', 1)],
               requires=['now < CLOCK_MAX'],
               ensures=[
                   C('C08.hk.reconnect_uplink.failed_socket_work_leaves_the_link_untouched', 'r is Err ==> *final(conn) == *old(conn)'),
                   C('C08+C09.hk.reconnect_uplink.a_successful_reconnect_installs_a_new_socket', '(r is Ok ==> final(io).sock_id() != old(io).sock_id()) && (r is Err ==> final(io).sock_id() == old(io).sock_id())'),
                   C('C06+C08.hk.reconnect_uplink.rejoins_with_default_window_zero_in_flight_registering', '''r is Ok ==> final(conn).window == 20000 && final(conn).in_flight_packets == 0 && final(conn).packet_log@.len() == 0
            && !final(conn).connected && final(conn).phase is Registering && final(conn).last_received is None'''),
                   C('C07+C08.hk.reconnect_uplink.retry_clock_and_startup_grace_restart', 'r is Ok ==> final(conn).reconnection.last_reconnect_attempt_ms == now && final(conn).reconnection.reconnect_failure_count == 0 && final(conn).reconnection.startup_grace_deadline_ms == now + 5000'),
                   'r is Ok ==> final(conn).batch_sender.wf() && final(conn).batch_sender.queue.len() == 0 && final(conn).wf()',
                   C('C19.hk.reconnect_uplink.a_reconnect_keeps_the_identity_reloads_match_on', 'final(conn).conn_id == old(conn).conn_id && final(conn).label == old(conn).label && final(conn).local_ip == old(conn).local_ip'),
                   'r is Ok ==> final(conn).reconnection.connection_established_ms == old(conn).reconnection.connection_established_ms',
               ]))

    # ---------------- count helper (R12) ----------------
    src = read_src(HK)
    m = re.search(r'let active_connections = connections\s*\.iter\(\)\s*\.filter\(\|c\| (.*?)\)\s*\.count\(\);', src, re.S)
    if not m:
        raise LostAnchor('handle_housekeeping: active_connections count')
    u.add('''
// R12: helper generated from `connections.iter().filter(|c| %s).count()`; predicate text copied from the source
pub fn hk_count_active(connections: &[SrtlaConnection], current_ms: u64) -> (r: usize)
    ensures r <= connections.len(),
{
    let mut n: usize = 0;
    let mut c_nx: usize = 0;
    while c_nx < connections.len()
        invariant c_nx <= connections.len(), n <= c_nx,
        decreases connections.len() - c_nx,
    {
        let c = &connections[c_nx]; c_nx += 1;
        if %s { n += 1; }
    }
    n
}
''' % (m.group(1).strip(), m.group(1).strip()))

    PRE = 'pre'
    u.add(u.fn(HK, 'handle_housekeeping', sub='hk', ret='r', erase_async=True,
               pre_rewrite=[(re.compile(r'let active_connections = connections\s*\.iter\(\)\s*\.filter\(\|c\| .*?\)\s*\.count\(\);', re.S), 'let active_connections = hk_count_active(connections, current_ms);', 1),
                            (re.compile(r'let reader_dead = reader_handles\s*\.get\(&conn\.conn_id\)\s*\.is_some_and\(\|reader\| reader\.handle\.is_finished\(\)\);'), 'let reader_dead = reader_is_dead(reader_handles, conn.conn_id);', 1)],
               post_rewrite=[('-> Result<()>', '-> Result<(), AnyhowError>', 1),
                             ('&mut HashMap<ConnectionId, ReaderHandle>', '&mut HashMap<u64, ReaderHandle>', 1), ('&UnboundedSender<UplinkPacket>', '&PacketTx', 1),
                             ('conn_io.get_mut(&conn.conn_id)', 'conn_io_get_mut(conn_io, conn.conn_id)', 1),
                             ('io.socket.send(&pkt)', '({ proof { lemma_sent_push(sent, (conn.conn_id, pkt@)); sent = sent.push((conn.conn_id, pkt@)); } io_send_258(io, &pkt) })', None),
                             ('io.socket.send(&ka)', '({ proof { lemma_sent_push(sent, (conn.conn_id, ka@)); sent = sent.push((conn.conn_id, ka@)); } io_send_38(io, &ka) })', None),
                             ('io.socket.clone()', 'io_socket_clone(io)', None),
                             (re.compile(r'restart_reader_for\(conn, ([^,]+), '), r'restart_reader_for(conn, ({ let sock_arg = \1; proof { assert(sock_arg.id() == io.sock_id()); }  // @ob C08+C09.hk.a_restarted_reader_listens_on_the_links_current_socket\n sock_arg }), ', None),
                             (re.compile(r'anyhow!\("[^"]*"\)'), 'anyhow_err()', None)],
               requires=['hk_wf(old(connections)@)', 'now_ms < CLOCK_MAX', 'now_ms > 0'],
               ensures=['final(connections).len() == old(connections).len()', 'hk_wf(final(connections)@)',
                        C('C07+C08.hk.gives_up_only_after_the_global_timeout_of_total_outage',
                          'r is Err ==> (*final(all_failed_at)) is Some && *final(all_failed_at) == *old(all_failed_at) && sub_sat(now_ms, (*final(all_failed_at)).unwrap()) > GLOBAL_TIMEOUT_MS')],
               loops={
                   0: dict(inv=['i_nx <= connections.len()', 'connections.len() == old(connections).len()', 'hk_wf(connections@)', 'current_ms == now_ms', 'now_ms < CLOCK_MAX', 'now_ms > 0',
                                'pre.len() == connections.len()', 'hk_wf(pre)',
                                'forall|j: int| i_nx <= j < connections.len() ==> #[trigger] connections[j] == pre[j]',
                                C('C08.hk.torn_down_only_when_timed_out_and_a_retry_is_due', 'forall|j: int| 0 <= j < i_nx && !retry_due(&pre[j], now_ms) ==> link_kept(&pre[j], &#[trigger] connections[j])'),
                                C('C06+C08.hk.every_link_whose_retry_is_due_restarts_with_clean_accounting', 'forall|j: int| 0 <= j < i_nx && retry_due(&pre[j], now_ms) ==> (#[trigger] connections[j]).window == 20000 && connections[j].in_flight_packets == 0 && connections[j].packet_log@.len() == 0 && !connections[j].connected && connections[j].phase is Registering'),
                                C('C06+C10.hk.classic_mode_never_applies_time_based_recovery', 'classic ==> forall|j: int| 0 <= j < i_nx ==> (#[trigger] connections[j]).window == pre[j].window || (retry_due(&pre[j], now_ms) && connections[j].window == 20000)'),
                                C('C14.hk.keepalive_sent_on_every_live_link_when_due', 'forall|j: int| 0 <= j < i_nx && keepalive_due(&pre[j], now_ms) ==> (#[trigger] connections[j]).last_keepalive_sent == Some(now_ms)'),
                                ],
                           dec='connections.len() - i_nx'),
                   1: dict(inv=['i_nx <= connections.len()', 'connections.len() == old(connections).len()', 'hk_wf(connections@)',
                                C('C07.hk.reg2_round_is_offered_to_every_uplink_that_has_a_socket',
                                  'forall|j: int| 0 <= j < i_nx && conn_io@.contains_key((#[trigger] connections[j]).conn_id) ==> offered(sent, connections[j].conn_id, pkt@)')],
                           ens=[C('C07.hk.reg2_round_is_offered_to_every_uplink_that_has_a_socket',
                                  'forall|j: int| 0 <= j < connections.len() && conn_io@.contains_key((#[trigger] connections[j]).conn_id) ==> offered(sent, connections[j].conn_id, pkt@)')],
                           dec='connections.len() - i_nx'),
               },
               splices=[
                   ('@BEGIN', '    let ghost mut sent: Seq<(u64, Seq<u8>)> = Seq::empty();', 'after'),
                   ('let mut i_nx: usize = 0;\n    while i_nx < connections.len()', 'let ghost pre = connections@;\n    let mut i_nx: usize = 0;\n    while i_nx < connections.len()', 'replace'),
                   ('let pkt = reg.build_reg1_for(i, current_ms);', '''proof {
                            assert(reg.pending_reg2_idx == Some(i));  // @ob C07.hk.reg1_is_resent_only_on_the_uplink_that_is_already_outstanding
                        }''', 'before'),
                   ('reg.update_active_connections(connections);', '''proof {
        assert(forall|j: int| 0 <= j < pre.len() && !retry_due(&pre[j], now_ms) ==> link_kept(&pre[j], &#[trigger] connections[j]));  // @ob C08.hk.torn_down_only_when_timed_out_and_a_retry_is_due
        assert(forall|j: int| 0 <= j < pre.len() && retry_due(&pre[j], now_ms) ==> (#[trigger] connections[j]).window == 20000 && connections[j].in_flight_packets == 0 && connections[j].packet_log@.len() == 0 && !connections[j].connected && connections[j].phase is Registering);  // @ob C06+C08.hk.every_link_whose_retry_is_due_restarts_with_clean_accounting
        assert(classic ==> forall|j: int| 0 <= j < pre.len() ==> (#[trigger] connections[j]).window == pre[j].window || (retry_due(&pre[j], now_ms) && connections[j].window == 20000));  // @ob C06+C10.hk.classic_mode_never_applies_time_based_recovery
        assert(forall|j: int| 0 <= j < pre.len() && keepalive_due(&pre[j], now_ms) ==> (#[trigger] connections[j]).last_keepalive_sent == Some(now_ms));  // @ob C14.hk.keepalive_sent_on_every_live_link_when_due
    }''', 'before'),
               ]))
    return u
