"""Unit `drain` (C09, C12): src/sender/packet_handler.rs::{handle_uplink_packet, drain_packet_queue} -- the glue between the per-uplink
reader channel and the two verified handlers (process_uplink_packet, process_connection_events), which are contract-only stubs here.

The tokio mpsc receiver is a trusted stub with a ghost FIFO view (try_recv pops the head or reports empty without touching it)."""
import re

from gen import C
import rules
import world
import reg as regunit
import shell
import shell_uplink

PH = shell.PH

STUBS = r'''
// ---------- uplink reader channel (tokio::sync::mpsc::UnboundedReceiver<UplinkPacket>) : trusted FIFO model ----------
#[verifier::external_body] pub struct PacketRx { _p: () }
#[verifier::external_body] pub struct TryRecvError { _p: () }
impl PacketRx {
    pub uninterp spec fn view(&self) -> Seq<UplinkPacket>;
    #[verifier::external_body]
    pub fn try_recv(&mut self) -> (r: Result<UplinkPacket, TryRecvError>)
        ensures match r {
            Ok(p) => old(self)@.len() > 0 && p == old(self)@[0] && final(self)@ == old(self)@.drop_first(),
            Err(_) => old(self)@.len() == 0 && final(self)@ == old(self)@,
        },
    { unimplemented!() }
}
#[verifier::external_body] pub fn io_send_258(io: &ConnIo, pkt: &[u8; 258]) -> Result<usize, IoError> { unimplemented!() }
pub open spec fn probes_ok(conns: Seq<SrtlaConnection>) -> bool {
    forall|i: int| 0 <= i < conns.len() ==> ((#[trigger] conns[i]).phase is Warming ==> conns[i].phase->rtt_probes < 0xffff_ffff)
}
pub open spec fn no_link_has_id(conns: Seq<SrtlaConnection>, id: u64) -> bool { forall|j: int| 0 <= j < conns.len() ==> (#[trigger] conns[j]).conn_id != id }
pub open spec fn ids_kept(o: Seq<SrtlaConnection>, n: Seq<SrtlaConnection>) -> bool { o.len() == n.len() && forall|j: int| 0 <= j < o.len() ==> (#[trigger] n[j]).conn_id == o[j].conn_id }
'''


def build():
    u = world.build('drain', active=['drain'])
    regunit.add_reg(u)
    u.use('use std::net::SocketAddr;')
    u.add(u.item('crates/srtla-core/src/connection/incoming.rs', 'struct', 'SrtlaIncoming'))
    u.add(shell.STUBS)
    shell.add_seqtrack(u)
    u.add(shell.LINK_SPEC)
    shell.add_attribute_nak(u)
    shell.add_events(u)
    shell_uplink.add_uplink(u)
    u.add(u.item('src/sender/uplink.rs', 'struct', 'UplinkPacket', post=lambda t: t.replace('ConnectionId', 'u64')))
    u.add(STUBS)
    SIG = [('instant_tx: &InstantForwarder', 'instant_tx: &InstantFwd', 1)]
    REACH = '(packet.bytes@.len() != 0 && !no_link_has_id(old(connections)@, packet.conn_id)) ==> parsed_g'
    REACH_TAG = 'C09.drain.handle_uplink_packet.a_datagram_of_a_known_uplink_always_reaches_the_uplink_parser'
    u.add(u.fn(PH, 'handle_uplink_packet', sub='drain', erase_async=True,
               pre_rewrite=[(lambda t: rules.r12_position(t)[0], None, 1)],
               post_rewrite=SIG + [('super::uplink_recv::process_uplink_packet(', 'process_uplink_packet(', 1), ('io.socket.send(&pkt)', 'io_send_258(io, &pkt)', 1),
                                   # every statement-position `return;` (also one a change adds) must satisfy the exit condition
                                   (re.compile(r'(?m)^(\s*)return;'), r'\1{ proof { assert(%s);  // @ob %s @exit\n\1} return; }' % (REACH, REACH_TAG), None),
                                   (re.compile(r'(\n\s*)match process_uplink_packet\('), r'\1proof { parsed_g = true; }\1match process_uplink_packet(', 1)],
               requires=['links_wf(old(connections)@)', 'distinct_conn_ids(old(connections)@)', 'probes_ok(old(connections)@)'],
               ensures=[
                   'links_wf(final(connections)@)', 'distinct_conn_ids(final(connections)@)', 'probes_ok(final(connections)@)',
                   C('C09+C12.drain.handle_uplink_packet.link_identities_are_kept', 'ids_kept(old(connections)@, final(connections)@)'),
                   C('C08+C09+C12.drain.handle_uplink_packet.empty_datagram_or_unknown_uplink_changes_nothing',
                     '(packet.bytes@.len() == 0 || no_link_has_id(old(connections)@, packet.conn_id)) ==> final(connections)@ == old(connections)@ && *final(reg) == *old(reg)'),
               ],
               loops={'idx_pos = Some(': dict(
                   inv_eb=['idx_pos is None', 'forall|j: int| 0 <= j < c_nx ==> (#[trigger] connections[j]).conn_id != packet.conn_id'],
                   inv=['c_nx <= connections.len()', 'connections@ == old(connections)@'],
                   ens=[C('C09.drain.handle_uplink_packet.datagram_is_processed_on_the_link_it_arrived_on',
                          '''match idx_pos { Some(i) => i < connections.len() && connections[i as int].conn_id == packet.conn_id, None => no_link_has_id(connections@, packet.conn_id) }''')],
                   dec='connections.len() - c_nx')},
               splices=[('@BEGIN', '    let ghost mut parsed_g: bool = false;', 'after'),
                        ('@END', '    proof { assert(%s);  // @ob %s @exit\n    }' % (REACH, REACH_TAG), 'before'),
                        ('Ok(mut incoming) => {', '''let ghost inc0 = incoming;
                proof {
                    assert(ids_kept(old(connections)@, connections@)) by {
                        assert forall|j: int| 0 <= j < connections.len() implies (#[trigger] connections[j]).conn_id == old(connections)[j].conn_id by {
                            if j != idx as int { assert(connections[j] == old(connections)[j]); }
                        }
                    }
                    assert(probes_ok(connections@)) by {
                        assert forall|j: int| 0 <= j < connections.len() implies ((#[trigger] connections[j]).phase is Warming ==> connections[j].phase->rtt_probes < 0xffff_ffff) by {
                            if j != idx as int { assert(connections[j] == old(connections)[j]); }
                        }
                    }
                    assert(links_wf(connections@)) by {
                        assert forall|j: int| 0 <= j < connections.len() implies (#[trigger] connections[j]).wf_count() && win_ok(connections[j].window) && connections[j].above_hw() by {
                            if j != idx as int { assert(connections[j] == old(connections)[j]); }
                        }
                    }
                }''', 'after', 'opt'),
                        ('if let Err(err) = process_connection_events(', '''proof {
                    // what the uplink parser extracted is what the event processor gets (only the deferred REG1 effect is taken out)
                    assert(incoming.forward_to_client@ == inc0.forward_to_client@ && incoming.ack_numbers@ == inc0.ack_numbers@  // @ob C09.drain.handle_uplink_packet.parsed_effects_are_handed_unchanged_to_the_event_processor
                        && incoming.nak_numbers@ == inc0.nak_numbers@ && incoming.srtla_ack_numbers@ == inc0.srtla_ack_numbers@);
                    assert(links_wf(connections@) && distinct_conn_ids(connections@) && idx < connections.len());
                }''', 'before', 'opt')]))
    u.add(u.fn(PH, 'drain_packet_queue', sub='drain', erase_async=True,
               post_rewrite=SIG + [('packet_rx: &mut UnboundedReceiver<UplinkPacket>', 'packet_rx: &mut PacketRx', 1),
                                   ('let mut processed = 0;', 'let mut processed: usize = 0;', 1),
                                   (re.compile(r'(\n\s*)handle_uplink_packet\(\s*packet,'), r'\1proof { handled = handled.push(packet); }\1handle_uplink_packet(\n packet,', 1)],
               requires=['links_wf(old(connections)@)', 'distinct_conn_ids(old(connections)@)', 'probes_ok(old(connections)@)'],
               ensures=[
                   'links_wf(final(connections)@)', 'distinct_conn_ids(final(connections)@)', 'probes_ok(final(connections)@)',
                   C('C09.drain.drain_packet_queue.what_is_left_in_the_channel_is_a_suffix_at_most_64_shorter',
                     'exists|k: int| 0 <= k <= 64 && k <= old(packet_rx)@.len() && final(packet_rx)@ == old(packet_rx)@.subrange(k, old(packet_rx)@.len() as int)'),
                   C('C09+C12.drain.drain_packet_queue.link_identities_are_kept', 'ids_kept(old(connections)@, final(connections)@)'),
               ],
               loops={0: dict(inv=['processed <= MAX_DRAIN_PACKETS', 'probes_ok(connections@)', 'links_wf(connections@)', 'distinct_conn_ids(connections@)', 'ids_kept(old(connections)@, connections@)',
                                   'processed == handled.len()', 'processed <= old(packet_rx)@.len()',
                                   C('C09.drain.drain_packet_queue.every_dequeued_datagram_is_handled_once_in_arrival_order',
                                     'handled =~= old(packet_rx)@.subrange(0, processed as int) && packet_rx@ =~= old(packet_rx)@.subrange(processed as int, old(packet_rx)@.len() as int)')],
                              dec='MAX_DRAIN_PACKETS - processed')},
               splices=[('@BEGIN', '    let ghost mut handled: Seq<UplinkPacket> = Seq::empty();', 'after')]))
    return u
