"""The srtla-core "world": every core item that any unit needs, extracted once, with
its contract overlay.  A unit verifies the bodies of the sub-units named in `active`;
every other function is emitted as an external_body stub carrying the *same*
contract text (single source), so callers are checked against callee contracts only."""
import re

from gen import Unit, C, impl_block, mod_block, read_src
from rustlex import scan_items
import prelude
import world_spec as S

K = 'crates/srtla-core/src/'
P = 'crates/srtla-protocol/src/'
CONN = K + 'connection/mod.rs'

# fields of SrtlaConnection that a routing decision may write (C12): everything else is "accounting / liveness"
STALL_FIELDS = ['stall_gated', 'stall_latched_since_ms', 'stall_recovery_since_ms', 'stall_gate_events',
                'silence_pulled', 'silence_pulls', 'conn_timeout_ms', 'quality_cache']


FRAMES = {
    'same_except_batch_bitrate': ['batch_sender', 'bitrate'],
    'same_except_keepalive': ['last_sent', 'last_keepalive_sent', 'rtt'],
    'same_except_window_cc': ['window', 'congestion'],
    'same_except_phase': ['phase'],
    'same_except_log': ['packet_log'],
    'same_except_bitrate': ['bitrate'],
    'same_except_uplink': ['last_received', 'connected', 'rtt', 'phase', 'last_ack_or_rtt_sample_ms', 'reconnection'],
    'same_except_qc': ['quality_cache'],
    'same_except_timeout': ['conn_timeout_ms'],
    'same_except_gated': ['stall_gated'],
    'same_except_stall_flags': ['stall_gated', 'silence_pulled', 'stall_latched_since_ms', 'stall_recovery_since_ms'],
    'same_except_stall_clear': ['conn_timeout_ms', 'stall_gated', 'silence_pulled', 'stall_latched_since_ms', 'stall_recovery_since_ms'],
    'same_except_take_batch': ['packet_log', 'in_flight_packets', 'highest_acked_seq', 'batch_sender', 'last_sent'],
    'same_except_log_hw': ['packet_log', 'in_flight_packets', 'highest_acked_seq'],
    'same_except_reconnection': ['reconnection'],
    'same_except_log_rtt': ['packet_log', 'in_flight_packets', 'highest_acked_seq', 'rtt'],
    'same_except_log_window_cc': ['packet_log', 'in_flight_packets', 'window', 'congestion'],
    'same_except_log_window_cc_proof': ['packet_log', 'in_flight_packets', 'window', 'congestion', 'last_ack_or_rtt_sample_ms'],
}


def struct_fields(struct_text):
    ob = struct_text.index('{')
    return re.findall(r'(?m)^\s*pub\s+(\w+)\s*:', struct_text[ob:])


def frame_pred(name, ty, fields, exempt):
    """field-wise frame predicate (closes transitivity for the solver, DESIGN A.1)."""
    conj = '\n'.join('        &&& self.%s == o.%s' % (f, f) for f in fields if f not in exempt)
    return 'impl %s {\n    pub open spec fn %s(&self, o: &%s) -> bool {\n%s\n    }\n}\n' % (ty, name, ty, conj or '        true')


def build(name, active=None):
    u = Unit(name)
    u.active = set(active) if active is not None else None
    u.use('use std::collections::HashMap;')
    u.use('use std::collections::VecDeque;')
    u.use('use std::net::IpAddr;')
    u.use('use vstd::std_specs::ops::*;')
    u.use('use vstd::std_specs::cmp::*;')
    u.add(prelude.INT)
    u.add(prelude.FLOAT)
    import proto
    proto.add_proto(u)
    u.add(S.STUBS)

    # ---------------- constants ----------------
    u.add(u.consts(K + 'config_snapshot.rs', skip=('CONN_TIMEOUT_MS',)))
    u.add(u.item(K + 'config_snapshot.rs', 'const', 'CONN_TIMEOUT_MS', post=lambda t: t.replace('srtla_protocol::', '')))
    u.add(u.consts(CONN))
    u.add(u.consts(K + 'connection/congestion/mod.rs'))
    u.add(u.consts(K + 'connection/reconnection.rs'))
    u.add(u.consts(K + 'connection/batch_send.rs'))
    u.add(u.item(K + 'connection/batch_send.rs', 'type', 'DrainedPacket'))

    # ---------------- plain types ----------------
    u.add(u.item(K + 'mode.rs', 'enum', 'SchedulingMode'))
    u.add(impl_block('SchedulingMode', [
        u.fn(K + 'mode.rs', 'is_classic', impl='SchedulingMode', sub='select', ret='r', ensures=[C('C10.select.mode.is_classic_reads_the_mode', 'r == (self is Classic)')]),
        u.fn(K + 'mode.rs', 'as_u8', impl='SchedulingMode', sub='select', ret='r', ensures=[
            C('C18.core.mode.as_u8', 'r == (if self is Classic { 0u8 } else { 1u8 })')]),
        u.fn(K + 'mode.rs', 'from_u8', impl='SchedulingMode', sub='select', ret='r', ensures=[
            C('C18.core.mode.from_u8_total', 'r == (if value == 0 { SchedulingMode::Classic } else { SchedulingMode::Enhanced })')]),
    ]))
    u.add(u.item(K + 'config_snapshot.rs', 'struct', 'ConfigSnapshot'))
    u.add(impl_block('ConfigSnapshot', [
        u.fn(K + 'config_snapshot.rs', 'effective_quality_enabled', impl='ConfigSnapshot', sub='select', ret='r',
             ensures=[C('C10+C11.select.config.quality_scoring_is_off_in_classic_mode', 'r == (self.quality_enabled && !(self.mode is Classic))')]),
    ]))
    u.add(u.item(CONN, 'enum', 'LinkPhase'))
    u.add(impl_block('LinkPhase', [
        u.fn(CONN, 'is_schedulable', impl='LinkPhase', sub='select', ret='r', ensures=[C('C03+C04.select.phase.schedulable_iff_registered', 'r == !(self is Registering)')]),
        u.fn(CONN, 'weight', impl='LinkPhase', sub='select', ret='r', ensures=[
            C('C11.select.phase_weight.values', 'r == spec_phase_weight(*self)')]),
    ]))
    u.add(u.item(CONN, 'struct', 'CachedQuality'))
    u.add(u.item(K + 'connection/reconnection.rs', 'struct', 'ReconnectionState'))
    u.add(u.item(K + 'connection/congestion/mod.rs', 'struct', 'CongestionControl'))
    u.add(u.item(K + 'connection/bitrate.rs', 'struct', 'BitrateTracker'))
    u.add(u.item(K + 'kalman.rs', 'struct', 'KalmanConfig'))
    u.add(u.item(K + 'kalman.rs', 'struct', 'KalmanFilter'))
    u.add(u.item(K + 'ewma.rs', 'struct', 'Ewma'))
    u.add(u.item(K + 'connection/rtt.rs', 'struct', 'RttTracker'))
    u.add(u.item(K + 'connection/batch_send.rs', 'enum', 'BatchRegime'))
    u.add(u.item(K + 'connection/batch_send.rs', 'struct', 'BatchSender'))
    conn_struct = u.item(CONN, 'struct', 'SrtlaConnection')
    u.add(conn_struct)
    fields = struct_fields(conn_struct)
    for f in STALL_FIELDS:
        if f not in fields:
            from gen import LostAnchor
            raise LostAnchor('SrtlaConnection field %s' % f)
    u.add(frame_pred('same_acct', 'SrtlaConnection', fields, STALL_FIELDS))
    for nm, ex in FRAMES.items():
        for f in ex:
            if f not in fields:
                from gen import LostAnchor
                raise LostAnchor('SrtlaConnection field %s' % f)
        u.add(frame_pred(nm, 'SrtlaConnection', fields, ex))
    u.add(S.SPEC)

    add_batch(u)
    add_congestion(u)
    add_reconnection(u)
    add_rtt(u)
    add_connection(u)
    add_selection(u)
    return u


# ------------------------------------------------------------------ batch_send.rs
def add_batch(u):
    B = K + 'connection/batch_send.rs'
    u.add(impl_block('BatchRegime', [
        u.fn(B, 'from_bps', impl='BatchRegime', sub='batch'),
        u.fn(B, 'batch_size', impl='BatchRegime', sub='batch', ret='r', ensures=[
            C('C01.batch.batch_size.at_most_32', '1 <= r <= 32'),
            'r == spec_batch_size(&self)']),
    ]))
    zip3 = (re.compile(r'let out: SmallVec<DrainedPacket, BATCH_SEND_SIZE> = self\s*\.queue\s*\.drain\(\.\.\)\s*\.zip\(self\.sequences\.drain\(\.\.\)\)\s*'
                       r'\.zip\(self\.queue_times\.drain\(\.\.\)\)\s*\.map\(\|\(\(data, seq\), time\)\| \(data, seq, time\)\)\s*\.collect\(\);'),
            'let out: Vec<DrainedPacket> = zip3_drain(&mut self.queue, &mut self.sequences, &mut self.queue_times);', 1)
    u.add(impl_block('BatchSender', [
        u.fn(B, 'new', impl='BatchSender', sub='batch', ret='r', ensures=[
            C('C01.batch.new.empty', 'r.wf() && r.queue.len() == 0')]),
        u.fn(B, 'queue_packet', impl='BatchSender', sub='batch', ret='r',
             requires=['old(self).wf()', 'old(self).queue.len() < 0x7fff_fff0'],
             ensures=[
                 C('C01+C02.batch.queue_packet.keeps_parallel_vectors_in_step', 'final(self).wf()'),
                 C('C01.batch.queue_packet.fifo_append', '''final(self).queue.len() == old(self).queue.len() + 1
            && (forall|i: int| 0 <= i < old(self).queue.len() ==> #[trigger] final(self).view_at(i) == old(self).view_at(i))
            && final(self).view_at(old(self).queue.len() as int) == (data@, seq, current_time_ms)'''),
                 'final(self).regime == old(self).regime', 'final(self).last_flush_ms == old(self).last_flush_ms',
                 C('C01.batch.queue_packet.flush_at_threshold', 'r == (final(self).queue.len() >= spec_batch_size(&old(self).regime))'),
             ]),
        u.fn(B, 'set_regime', impl='BatchSender', sub='batch', requires=['old(self).wf()'], ensures=[
            C('C01+C02.batch.set_regime.keeps_parallel_vectors_in_step', 'final(self).wf()'), 'final(self).regime == regime',
            C('C01.batch.set_regime.keeps_queue', 'final(self).queue == old(self).queue && final(self).sequences == old(self).sequences && final(self).queue_times == old(self).queue_times && final(self).last_flush_ms == old(self).last_flush_ms')]),
        u.fn(B, 'needs_time_flush', impl='BatchSender', sub='batch', ret='r', ensures=[
            C('C01.batch.needs_time_flush.due_after_15ms', 'r == (self.queue.len() > 0 && sub_sat(now_ms, self.last_flush_ms) >= 15)')]),
        u.fn(B, 'has_queued_packets', impl='BatchSender', sub='batch', ret='r', ensures=[C('C01.batch.sender.has_queued_packets_iff_queue_nonempty', 'r == (self.queue.len() > 0)')]),
        u.fn(B, 'queued_count', impl='BatchSender', sub='batch', ret='r', requires=['self.wf()'],
             ensures=[C('C10+C11.batch.queued_count.counts_every_datagram_still_queued', 'r == self.queue.len()'), '0 <= r']),
        u.fn(B, 'drain', impl='BatchSender', sub='batch', ret='r', pre_rewrite=[zip3], requires=['old(self).wf()'], ensures=[
            C('C01+C02.batch.drain.keeps_parallel_vectors_in_step', 'final(self).wf()'),
            C('C01.batch.drain.empties', 'final(self).queue.len() == 0'),
            'final(self).last_flush_ms == now_ms', 'final(self).regime == old(self).regime',
            C('C01.batch.drain.returns_queue_in_order', '''r.len() == old(self).queue.len()
            && (forall|i: int| 0 <= i < r.len() ==> (#[trigger] r[i]).0@ == old(self).queue[i]@ && r[i].1 == old(self).sequences[i] && r[i].2 == old(self).queue_times[i])'''),
        ]),
        u.fn(B, 'reset', impl='BatchSender', sub='batch', ensures=[
            C('C01+C02+C05+C08.batch.reset.keeps_parallel_vectors_in_step', 'final(self).wf()'), C('C01.batch.reset.empties', 'final(self).queue.len() == 0'),
            'final(self).regime == old(self).regime', 'final(self).last_flush_ms == 0']),
    ]))


# ------------------------------------------------------------------ congestion
def add_congestion(u):
    G = K + 'connection/congestion/mod.rs'
    u.add(mod_block('cc_classic', u.consts(K + 'connection/congestion/classic.rs') + '\n' + u.fn(
        K + 'connection/congestion/classic.rs', 'handle_srtla_ack_specific', sub='acct', qual='cc_classic::handle_srtla_ack_specific',
        requires=['win_ok(*old(window))'],
        ensures=[C('C06+C10.acct.classic_ack.exact_delta', '*final(window) == spec_ack_window(*old(window), in_flight_packets)'),
                 C('C06.acct.classic_ack.in_range', 'win_ok(*final(window))')])))
    u.add(mod_block('cc_enhanced', u.consts(K + 'connection/congestion/enhanced.rs') + '\n' + u.fn(
        K + 'connection/congestion/enhanced.rs', 'handle_srtla_ack', sub='acct', qual='cc_enhanced::handle_srtla_ack',
        requires=['win_ok(*old(window))'],
        ensures=[C('C06.acct.enhanced_ack.exact_delta', '*final(window) == spec_ack_window(*old(window), in_flight_packets)'),
                 C('C06.acct.enhanced_ack.in_range', 'win_ok(*final(window))'),
                 C('C06.acct.enhanced_ack.fast_recovery_left_only_at_12000',
                   '*old(fast_recovery_mode) && !*final(fast_recovery_mode) ==> *final(window) >= 12000'),
                 C('C06.acct.enhanced_ack.fast_recovery_not_entered', '!*old(fast_recovery_mode) ==> !*final(fast_recovery_mode)')]) + '\n' + S.PERFORM_WINDOW_RECOVERY_STUB))
    rep = [('classic::handle_srtla_ack_specific(', 'cc_classic::handle_srtla_ack_specific(', None),
           ('enhanced::handle_srtla_ack(', 'cc_enhanced::handle_srtla_ack(', None),
           ('enhanced::perform_window_recovery(', 'cc_enhanced::perform_window_recovery(', None)]
    u.add(impl_block('CongestionControl', [
        u.fn(G, 'reset', impl='CongestionControl', sub='acct', ensures=[
            C('C06.acct.cc_reset.leaves_fast_recovery', '!final(self).fast_recovery_mode'),
            'final(self).nak_count == 0', 'final(self).nak_burst_count == 0', 'final(self).last_nak_time_ms == 0']),
        u.fn(G, 'handle_nak', impl='CongestionControl', sub='acct', ret='r', qual='CongestionControl::handle_nak',
             requires=['win_ok(*old(window))'],
             ensures=[
                 C('C03+C05+C06+C10.acct.cc_handle_nak.window_minus_100_floor_1000', '*final(window) == (if *old(window) - 100 >= 1000 { *old(window) - 100 } else { 1000 })'),
                 C('C06.acct.cc_handle_nak.never_increases', '*final(window) <= *old(window)'),
                 C('C06.acct.cc_handle_nak.in_range', 'win_ok(*final(window))'),
                 C('C05.acct.cc_handle_nak.one_loss_count', 'final(self).nak_count == sat_i32(old(self).nak_count + 1)'),
                 C('C06.acct.cc_handle_nak.fast_recovery_entered_only_at_2000', '!old(self).fast_recovery_mode && final(self).fast_recovery_mode ==> *final(window) <= 2000'),
                 C('C06.acct.cc_handle_nak.fast_recovery_not_left', 'old(self).fast_recovery_mode ==> final(self).fast_recovery_mode'),
                 # nothing is promised about the returned bool: the only caller (SrtlaConnection::handle_nak) discards it, and must not start relying on it
                 ]),
        u.fn(G, 'handle_srtla_ack_specific_classic', impl='CongestionControl', sub='acct', post_rewrite=rep,
             requires=['win_ok(*old(window))'],
             ensures=[C('C06+C10.acct.classic_ack.exact_delta', '*final(window) == spec_ack_window(*old(window), in_flight_packets)'),
                      C('C06.acct.classic_ack.frame', '*final(self) == *old(self)')]),
        u.fn(G, 'handle_srtla_ack_enhanced', impl='CongestionControl', sub='acct', post_rewrite=rep,
             requires=['win_ok(*old(window))'],
             ensures=[C('C06.acct.enhanced_ack.exact_delta', '*final(window) == spec_ack_window(*old(window), in_flight_packets)'),
                      C('C06.acct.enhanced_ack.fast_recovery_left_only_at_12000',
                        'old(self).fast_recovery_mode && !final(self).fast_recovery_mode ==> *final(window) >= 12000'),
                      C('C06.acct.enhanced_ack.fast_recovery_not_entered', '!old(self).fast_recovery_mode ==> !final(self).fast_recovery_mode'),
                      C('C06.acct.enhanced_ack.frame', '*final(self) == (CongestionControl { fast_recovery_mode: final(self).fast_recovery_mode, ..*old(self) })')]),
        u.fn(G, 'perform_window_recovery', impl='CongestionControl', sub='acct', post_rewrite=rep,
             requires=['win_ok(*old(window))'],
             ensures=[C('C06.acct.cc.window_recovery_keeps_1000_60000', 'win_ok(*final(window))'), C('C06.acct.cc.window_recovery_never_decreases', '*old(window) <= *final(window)'), '!connected ==> *final(window) == *old(window)',
                      'old(self).fast_recovery_mode && !final(self).fast_recovery_mode ==> *final(window) >= 12000',
                      '!old(self).fast_recovery_mode ==> !final(self).fast_recovery_mode',
                      'final(self).nak_count == old(self).nak_count']),
        u.fn(G, 'time_since_last_nak_ms', impl='CongestionControl', sub='acct', ret='r',
             ensures=['r == (if self.last_nak_time_ms == 0 { None::<u64> } else { Some(sub_sat(now_ms, self.last_nak_time_ms)) })']),
    ]))


# ------------------------------------------------------------------ reconnection.rs
def add_reconnection(u):
    R = K + 'connection/reconnection.rs'
    u.add(impl_block('ReconnectionState', [
        u.fn(R, 'backoff_delay', impl='ReconnectionState', sub='reconn', ret='r', ensures=[
            C('C08.reconn.backoff_delay.between_5s_and_120s', '5000 <= r <= 120000'),
            'r == spec_backoff(self.reconnect_failure_count)'],
            splices=[('let delay =', 'proof { lemma_shift_backoff(capped_failures); }', 'before')]),
        u.fn(R, 'should_attempt_reconnect', impl='ReconnectionState', sub='reconn', ret='r', ensures=[
            C('C08.reconn.should_attempt.initial_spacing_1s',
              'r && self.connection_established_ms == 0 && self.last_reconnect_attempt_ms != 0 ==> sub_sat(now, self.last_reconnect_attempt_ms) >= 1000'),
            C('C08.reconn.should_attempt.later_spacing_5s',
              'r && self.connection_established_ms != 0 && self.last_reconnect_attempt_ms != 0 ==> sub_sat(now, self.last_reconnect_attempt_ms) >= 5000'),
            C('C08.reconn.should_attempt.never_gives_up',
              '(self.connection_established_ms != 0 || now > self.startup_grace_deadline_ms) && sub_sat(now, self.last_reconnect_attempt_ms) >= 120000 ==> r'),
            'r == spec_should_reconnect(self, now)']),
        u.fn(R, 'record_attempt', impl='ReconnectionState', sub='reconn', ensures=[
            C('C08.reconn.record_attempt.stamps_now', 'final(self).last_reconnect_attempt_ms == now'),
            'final(self).connection_established_ms == old(self).connection_established_ms',
            'final(self).startup_grace_deadline_ms == old(self).startup_grace_deadline_ms']),
        u.fn(R, 'mark_success', impl='ReconnectionState', sub='reconn', ensures=[
            C('C08.reconn.mark_success.backoff_restarts', 'final(self).reconnect_failure_count == 0'),
            C('C08.reconn.mark_success.keeps_the_retry_clock', 'final(self).last_reconnect_attempt_ms == old(self).last_reconnect_attempt_ms'),
            'final(self).connection_established_ms == old(self).connection_established_ms',
            'final(self).startup_grace_deadline_ms == old(self).startup_grace_deadline_ms']),
        u.fn(R, 'reset_startup_grace', impl='ReconnectionState', sub='reconn', requires=['now < 0x4000_0000_0000_0000'],
             ensures=['final(self).startup_grace_deadline_ms == now + 5000', 'final(self).last_reconnect_attempt_ms == old(self).last_reconnect_attempt_ms',
                      'final(self).reconnect_failure_count == old(self).reconnect_failure_count', 'final(self).connection_established_ms == old(self).connection_established_ms']),
    ]))


# ------------------------------------------------------------------ rtt.rs / kalman.rs / bitrate.rs
def add_rtt(u):
    T = K + 'connection/rtt.rs'
    u.add(impl_block('KalmanFilter', [
        u.fn(K + 'kalman.rs', 'value', impl='KalmanFilter', sub='reconn', ret='r', ensures=['r == self.x']),
        u.fn(K + 'kalman.rs', 'velocity', impl='KalmanFilter', sub='reconn', ret='r', ensures=['r == self.v']),
        u.fn(K + 'kalman.rs', 'is_initialized', impl='KalmanFilter', sub='reconn', ret='r', ensures=['r == self.initialized']),
        u.fn(K + 'kalman.rs', 'reset', impl='KalmanFilter', sub='reconn', ensures=['!final(self).initialized', 'final(self).config == old(self).config']),
    ]))
    u.add(impl_block('BitrateTracker', [
        u.fn(K + 'connection/bitrate.rs', 'new', impl='BitrateTracker', sub='reconn'),
        u.fn(K + 'connection/bitrate.rs', 'reset', impl='BitrateTracker', sub='reconn', ensures=[
            C('C08+C17.reconn.bitrate.reset.restarts_the_throughput_measurement_from_zero',
              'final(self).bytes_sent_total == 0 && final(self).bytes_sent_window == 0 && final(self).last_rate_update_ms == now_ms && final(self).current_bitrate_bps == 0.0f64')]),
        u.fn(K + 'connection/bitrate.rs', 'update_on_send', impl='BitrateTracker', sub='reconn'),
    ]))
    u.add(S.RTT_STUBS)
    # audits of the repository functions modelled by hand-written stubs (their assumed frames must still describe the code)
    u.audit(T, 'update_estimate', impl='RttTracker', sig=['&mut self', 'rtt_ms: u64', 'now_ms: u64'],
            forbid=[r'waiting_for_keepalive_response\s*(=[^=]|\|=|&=)', r'last_keepalive_sent_ms\s*(=[^=]|\+=|-=)', r'self\.(reset|record_keepalive_sent|handle_keepalive_response)\('])
    u.audit(CONN, 'calculate_bitrate', impl='SrtlaConnection', sig=['&mut self', 'now_ms: u64'], require=[r'^\{ self\.bitrate\.calculate\(now_ms\); \}$'])
    u.add(impl_block('Ewma', [u.fn(K + 'ewma.rs', 'reset', impl='Ewma', sub='reconn', ensures=['!final(self).initialized'])]))
    u.add(impl_block('RttTracker', [
        u.fn(T, 'reset', impl='RttTracker', sub='reconn',
             post_rewrite=[(re.compile(r'self\.(rtt_min_fast_window|rtt_min_slow_window|rtt_sample_filter)\.clear\(\);'), r'vecdeque_f64_clear(&mut self.\1);', 3)],
             ensures=[C('C08+C14.reconn.rtt.reset.cancels_the_outstanding_probe_and_forgets_the_estimate',
                        '!final(self).waiting_for_keepalive_response && final(self).last_keepalive_sent_ms == 0 && final(self).last_rtt_measurement_ms == 0 && !final(self).kalman_rtt.initialized')]),
        u.fn(T, 'record_keepalive_sent', impl='RttTracker', sub='reconn', ensures=[
            C('C14.reconn.rtt.record_keepalive_sent_arms_the_probe', 'final(self).last_keepalive_sent_ms == now_ms && final(self).waiting_for_keepalive_response'),
            'final(self).last_rtt_measurement_ms == old(self).last_rtt_measurement_ms', 'final(self).kalman_rtt == old(self).kalman_rtt']),
        u.fn(T, 'handle_keepalive_response', impl='RttTracker', sub='reconn', ret='r',
             ensures=[
                 C('C09+C14.reconn.keepalive_response.sample_only_while_probe_outstanding', 'r is Some ==> old(self).waiting_for_keepalive_response'),
                 C('C09+C14.reconn.keepalive_response.sample_only_from_valid_echo',
                   'r is Some ==> spec_keepalive_ts(data@) is Some && r.unwrap() == sub_sat(now_ms, spec_keepalive_ts(data@).unwrap())'),
                 C('C09+C14.reconn.keepalive_response.rtt_in_0_10s', 'r is Some ==> 0 < r.unwrap() <= 10000'),
                 C('C14.reconn.keepalive_response.ignored_when_not_waiting', '!old(self).waiting_for_keepalive_response ==> *final(self) == *old(self) && r is None'),
                 C('C14.reconn.keepalive_response.probe_consumed', '!final(self).waiting_for_keepalive_response'),
             ]),
        u.fn(T, 'rtt_gradient_ms', impl='RttTracker', sub='select', ret='r', ensures=['r == self.spec_gradient()']),
        u.fn(T, 'queue_building_suspected', impl='RttTracker', sub='select', ret='r', ensures=[
            C('C17.classify.rtt.queue_building_is_gradient_above_3_masd_floored_at_5_percent_of_min_rtt_and_false_without_a_baseline', 'r == self.spec_queue_building()')]),
        u.fn(T, 'needs_measurement', impl='RttTracker', sub='reconn', ret='r', ensures=[
            C('C08+C14.reconn.rtt.probe_due_only_when_none_outstanding_and_3s_old', 'r == (connection_established_ms != 0 && connected && !self.waiting_for_keepalive_response && (self.last_rtt_measurement_ms == 0 || sub_sat(now_ms, self.last_rtt_measurement_ms) > 3000))')]),
    ]))


# ------------------------------------------------------------------ connection/mod.rs + ack_nak.rs
def _audit_defaults():
    """the constructors use four Default impls through hand-written stubs (rtt_tracker_default, congestion_default, cached_quality_default,
    reconnection_default_with_grace) whose `ensures` ASSUME what the impls give: audited against the source text on every run."""
    from gen import LostAnchor
    import rustlex
    def need(rel, rx, what):
        if not re.search(rx, rustlex.strip_comments(read_src(rel)), re.S):
            raise LostAnchor('audit of a stubbed Default impl: %s no longer matches the source' % what)
    T = K + 'connection/rtt.rs'
    m = re.search(r'impl Default for RttTracker \{.*?\n\}', rustlex.strip_comments(read_src(T)), re.S)
    if not m:
        raise LostAnchor('audit: impl Default for RttTracker not found')
    for init in ('last_keepalive_sent_ms: 0,', 'waiting_for_keepalive_response: false,', 'last_rtt_measurement_ms: 0,'):
        if init not in m.group(0):
            raise LostAnchor('audit of impl Default for RttTracker: `%s` is gone (rtt_tracker_default assumes it)' % init)
    m = re.search(r'impl Default for CachedQuality \{.*?\n\}', rustlex.strip_comments(read_src(CONN)), re.S)
    if not m or 'multiplier: 1.0,' not in m.group(0) or 'last_calculated_ms: 0,' not in m.group(0):
        raise LostAnchor('audit of impl Default for CachedQuality: multiplier 1.0 / last_calculated_ms 0 (cached_quality_default assumes them)')
    need(K + 'connection/reconnection.rs', r'#\[derive\([^)]*\bDefault\b[^)]*\)\]\s*pub struct ReconnectionState\b', 'derive(Default) on ReconnectionState')
    need(K + 'connection/congestion/mod.rs', r'#\[derive\([^)]*\bDefault\b[^)]*\)\]\s*pub struct CongestionControl\b', 'derive(Default) on CongestionControl')


def add_connection(u):
    _audit_defaults()
    A = K + 'connection/ack_nak.rs'
    fns = []
    F = fns.append
    F(u.fn(CONN, 'new_registering', impl='SrtlaConnection', sub='acct', ret='r',
           post_rewrite=[
                         ('RttTracker::default()', 'rtt_tracker_default()', 1),
                         ('CongestionControl::default()', 'congestion_default()', 1),
                         ('CachedQuality::default()', 'cached_quality_default()', 1),
                         (re.compile(r'reconnection: ReconnectionState \{\s*startup_grace_deadline_ms: now \+ STARTUP_GRACE_MS,\s*\.\.Default::default\(\)\s*,?\s*\}'),
                          'reconnection: reconnection_default_with_grace(now + STARTUP_GRACE_MS)', 1)],
           requires=['now < 0x4000_0000_0000_0000'],
           ensures=[
               C('C06.acct.new_registering.window_starts_at_20000', 'r.window == 20000'),
               C('C02.acct.new_registering.nothing_in_flight', 'r.in_flight_packets == 0 && r.packet_log@.len() == 0 && r.highest_acked_seq == i32::MIN'),
               'r.wf()', '!r.connected', 'r.phase is Registering', C('C19.acct.new_registering.keeps_the_identity_it_was_given', 'r.conn_id == conn_id && r.label == label && r.local_ip == local_ip'),
               C('C13.acct.new_registering.starts_without_delivery_proof_or_stall_state', 'r.last_ack_or_rtt_sample_ms == 0 && r.stall_latched_since_ms == 0 && !r.silence_pulled && !r.stall_gated'),
               'r.batch_sender.queue.len() == 0',
           ]))
    F(u.fn(CONN, 'get_score', impl='SrtlaConnection', sub='select', props=('C03',), ret='r', requires=['0 <= self.window', 'self.batch_sender.wf()'], ensures=[
        C('C03+C10+C11.select.get_score.window_over_inflight_plus_queued_plus_1', 'r == self.spec_score()')]))
    F(u.fn(CONN, 'queue_data_packet', impl='SrtlaConnection', sub='batch', ret='r',
           requires=['old(self).batch_sender.wf()', 'old(self).batch_sender.queue.len() < 0x7fff_fff0'],
           ensures=[
               'final(self).batch_sender.wf()',
               C('C01.batch.queue_data_packet.appends_exact_bytes', '''final(self).batch_sender.queue.len() == old(self).batch_sender.queue.len() + 1
            && (forall|i: int| 0 <= i < old(self).batch_sender.queue.len() ==> #[trigger] final(self).batch_sender.view_at(i) == old(self).batch_sender.view_at(i))
            && final(self).batch_sender.view_at(old(self).batch_sender.queue.len() as int) == (data@, seq, send_time_ms)'''),
               C('C01.batch.queue_data_packet.flush_at_threshold', 'r == (final(self).batch_sender.queue.len() >= spec_batch_size(&old(self).batch_sender.regime))'),
               C('C01+C12.batch.queue_data_packet.frame', 'final(self).same_except_batch_bitrate(old(self))'),
               'final(self).batch_sender.regime == old(self).batch_sender.regime',
           ]))
    F(u.fn(CONN, 'needs_batch_flush', impl='SrtlaConnection', sub='batch', ret='r', ensures=[
        C('C01.batch.conn.flush_due_after_15ms', 'r == (self.batch_sender.queue.len() > 0 && sub_sat(now_ms, self.batch_sender.last_flush_ms) >= 15)')]))
    F(u.fn(CONN, 'has_queued_packets', impl='SrtlaConnection', sub='batch', ret='r', ensures=[C('C01.batch.conn.has_queued_packets_iff_queue_nonempty', 'r == (self.batch_sender.queue.len() > 0)')]))
    F(u.fn(CONN, 'take_batch', impl='SrtlaConnection', sub='batch', ret='r',
           requires=['old(self).wf_count()', 'old(self).batch_sender.wf()', 'old(self).packet_log@.len() + old(self).batch_sender.queue.len() < 0x7fff_0000'],
           ensures=[
               C('C02+C05.batch.take_batch.count_equals_set', 'final(self).wf_count()'), 'final(self).batch_sender.wf()',
               C('C02+C10.batch.take_batch.keeps_log_above_high_water', 'old(self).above_hw() ==> final(self).above_hw()'),
               C('C01.batch.take_batch.returns_queue_in_order', '''r.len() == old(self).batch_sender.queue.len()
            && (forall|i: int| 0 <= i < r.len() ==> (#[trigger] r[i]).0@ == old(self).batch_sender.queue[i]@ && r[i].1 == old(self).batch_sender.sequences[i] && r[i].2 == old(self).batch_sender.queue_times[i])'''),
               C('C01.batch.take_batch.queue_emptied', 'final(self).batch_sender.queue.len() == 0'),
               C('C02.batch.take_batch.registers_exactly_the_tracked_seqs', '''forall|k: i32| #[trigger] final(self).packet_log@.contains_key(k) <==>
                (old(self).packet_log@.contains_key(k) || exists|i: int| 0 <= i < old(self).batch_sender.queue.len() && (#[trigger] old(self).batch_sender.sequences[i]) is Some && old(self).batch_sender.sequences[i].unwrap() as i32 == k)'''),
               'final(self).packet_log@.len() <= old(self).packet_log@.len() + old(self).batch_sender.queue.len()',
               C('C01.batch.take_batch.stamps_last_sent', 'old(self).batch_sender.queue.len() > 0 ==> final(self).last_sent == Some(now)'),
               'final(self).window == old(self).window', 'final(self).connected == old(self).connected',
               'final(self).conn_id == old(self).conn_id',
               C('C01+C12.batch.take_batch.frame', 'final(self).same_except_take_batch(old(self))'),
           ],
           loops={0: dict(inv=[
               'batch_nx <= batch.len()', 'self.wf_count()', 'mid.same_except_take_batch(old(self))',
               'self.same_except_log_hw(&mid)',
               'self.packet_log@.len() <= mid.packet_log@.len() + batch_nx',
               'mid.packet_log@.len() + batch@.len() < 0x7fff_0000',
               C('C02+C10.batch.take_batch.keeps_log_above_high_water', 'old(self).above_hw() ==> self.above_hw()'),
               C('C02.batch.take_batch.registers_exactly_the_tracked_seqs', '''forall|k: i32| #[trigger] self.packet_log@.contains_key(k) <==>
                    (mid.packet_log@.contains_key(k) || exists|i: int| 0 <= i < batch_nx && (#[trigger] batch@[i]).1 is Some && batch@[i].1.unwrap() as i32 == k)'''),
           ], dec='batch.len() - batch_nx')},
           splices=[('let batch = self.batch_sender.drain(now);', 'let ghost mid = *self;', 'after'),
                    ('self.last_sent = Some(now);', '''proof {
            let n = old(self).batch_sender.queue.len() as int;
            assert forall|k: i32| #[trigger] self.packet_log@.contains_key(k) <==>
                (old(self).packet_log@.contains_key(k) || exists|i: int| 0 <= i < n && (#[trigger] old(self).batch_sender.sequences[i]) is Some && old(self).batch_sender.sequences[i].unwrap() as i32 == k) by {
                if exists|i: int| 0 <= i < batch_nx && (#[trigger] batch@[i]).1 is Some && batch@[i].1.unwrap() as i32 == k {
                    let i = choose|i: int| 0 <= i < batch_nx && (#[trigger] batch@[i]).1 is Some && batch@[i].1.unwrap() as i32 == k;
                    assert(old(self).batch_sender.sequences[i] is Some && old(self).batch_sender.sequences[i].unwrap() as i32 == k);
                }
                if exists|i: int| 0 <= i < n && (#[trigger] old(self).batch_sender.sequences[i]) is Some && old(self).batch_sender.sequences[i].unwrap() as i32 == k {
                    let i = choose|i: int| 0 <= i < n && (#[trigger] old(self).batch_sender.sequences[i]) is Some && old(self).batch_sender.sequences[i].unwrap() as i32 == k;
                    assert(batch@[i].1 is Some && batch@[i].1.unwrap() as i32 == k);
                }
            }
        }''', 'before')]))
    F(u.fn(CONN, 'keepalive_packet', impl='SrtlaConnection', sub='reconn', ret='r',
           post_rewrite=[('self.rtt.kalman_rtt.value() as u32', 'f64_to_u32(self.rtt.kalman_rtt.value())', 1),
                         ('(self.bitrate.current_bitrate_bps / 8.0) as u32', 'f64_to_u32(self.bitrate.current_bitrate_bps / 8.0)', 1)],
           ensures=[
        C('C14.reconn.keepalive_packet.carries_send_timestamp', 'spec_keepalive_ts(r@) == Some(now)'),
        C('C14.reconn.keepalive_packet.telemetry_equals_link_state', '''spec_keepalive_info(r@) is Some
            && spec_keepalive_info(r@).unwrap().conn_id == old(self).conn_id as u32
            && spec_keepalive_info(r@).unwrap().window == old(self).window
            && spec_keepalive_info(r@).unwrap().in_flight == old(self).in_flight_packets
            && spec_keepalive_info(r@).unwrap().nak_count == old(self).congestion.nak_count as u32
            && spec_keepalive_info(r@).unwrap().rtt_ms == spec_f64_to_u32(old(self).rtt.kalman_rtt.x)'''),
        C('C14.reconn.keepalive_packet.stamps_send_time', 'final(self).last_keepalive_sent == Some(now) && final(self).last_sent == Some(now)'),
        C('C14.reconn.keepalive_packet.arms_probe_only_when_idle',
          'final(self).rtt.waiting_for_keepalive_response == (old(self).rtt.waiting_for_keepalive_response || old(self).rtt.last_rtt_measurement_ms == 0 || sub_sat(now, old(self).rtt.last_rtt_measurement_ms) > 3000)'),
        C('C12+C14.reconn.keepalive_packet.frame', 'final(self).same_except_keepalive(old(self))'),
    ]))
    F(u.fn(CONN, 'note_sent', impl='SrtlaConnection', sub='reconn', ensures=[
        C('C08+C14.reconn.conn.note_sent_stamps_the_send_clock_and_nothing_else', '*final(self) == (SrtlaConnection { last_sent: Some(now), ..*old(self) })')]))
    F(u.fn(CONN, 'get_smooth_rtt_ms', impl='SrtlaConnection', sub='select', ret='r', ensures=['r == spec_srtt(self.rtt.kalman_rtt.x)']))
    F(u.fn(CONN, 'get_rtt_min_ms', impl='SrtlaConnection', sub='select', ret='r', ensures=[C('C11.select.conn.get_rtt_min_ms_reads_the_documented_minimum', 'r == self.rtt.rtt_min_ms')]))
    F(u.fn(CONN, 'needs_rtt_measurement', impl='SrtlaConnection', sub='reconn', ret='r', ensures=[
        C('C14.reconn.conn.rtt_probe_due_only_when_none_outstanding_and_3s_old', 'r == (self.reconnection.connection_established_ms != 0 && self.connected && !self.rtt.waiting_for_keepalive_response && (self.rtt.last_rtt_measurement_ms == 0 || sub_sat(now_ms, self.rtt.last_rtt_measurement_ms) > 3000))')]))
    F(u.fn(CONN, 'needs_keepalive', impl='SrtlaConnection', sub='reconn', ret='r', ensures=[
        C('C14.reconn.needs_keepalive.due_after_1s', 'r == (self.connected && (self.last_keepalive_sent is None || sub_sat(now_ms, self.last_keepalive_sent.unwrap()) >= 1000))')]))
    F(u.fn(CONN, 'perform_window_recovery', impl='SrtlaConnection', sub='acct',
           requires=['win_ok(old(self).window)'],
           ensures=[C('C06.acct.conn.window_recovery_keeps_1000_60000', 'win_ok(final(self).window)'), C('C06.acct.conn.window_recovery_never_decreases', 'old(self).window <= final(self).window'), '!old(self).connected ==> final(self).window == old(self).window',
                    'old(self).congestion.fast_recovery_mode && !final(self).congestion.fast_recovery_mode ==> final(self).window >= 12000',
                    '!old(self).congestion.fast_recovery_mode ==> !final(self).congestion.fast_recovery_mode',
                    'final(self).same_except_window_cc(old(self))']))
    F(u.fn(CONN, 'record_rtt_probe', impl='SrtlaConnection', sub='reconn',
           requires=['old(self).phase is Warming ==> old(self).phase->rtt_probes < 0xffff_ffff'],
           ensures=['final(self).same_except_phase(old(self))', 'old(self).phase is Registering ==> final(self).phase is Registering',
                    'final(self).phase is Warming ==> final(self).phase->rtt_probes < WARMING_RTT_PROBES', '!(old(self).phase is Warming) ==> final(self).phase == old(self).phase']))
    F(u.fn(CONN, 'is_schedulable', impl='SrtlaConnection', sub='select', props=('C03',), ret='r', ensures=[C('C03+C04.select.conn.schedulable_iff_registered', 'r == self.spec_sched()')]))
    F(u.fn(CONN, 'phase_weight', impl='SrtlaConnection', sub='select', ret='r', ensures=[C('C11.select.conn.phase_weight_delegates', 'r == spec_phase_weight(self.phase)')]))
    for nm in ('effective_stall_stale_ms', 'silence_pull_window_ms'):
        pass
    F(u.fn(CONN, 'effective_stall_stale_ms', impl='SrtlaConnection', sub='select', props=('C03',), ret='r',
           post_rewrite=[('(srtt as u64)', 'f64_to_u64(srtt)', 1)],
           ensures=[C('C13.select.effective_stall_stale_ms.formula', 'r == self.spec_eff_stale(ceiling_ms)')]))
    F(u.fn(CONN, 'is_stalled', impl='SrtlaConnection', sub='select', props=('C03',), ret='r', ensures=[
        C('C13.select.is_stalled.needs_backlog_and_stale_proof', 'r == self.spec_stalled(now_ms, min_in_flight, stale_ceiling_ms)')]))
    u.add(S.LATCH_TRACE)
    F(u.fn(CONN, 'update_stall_latch', impl='SrtlaConnection', sub='select', props=('C03',),
           post_rewrite=[],
           requires=['old(self).stall_gate_events < 0x7fff_ffff_ffff_ffff', 'now_ms > 0', 'old(self).latch_wf()'],
           ensures=S.LATCH_ENSURES))
    F(u.fn(CONN, 'stall_latched', impl='SrtlaConnection', sub='select', props=('C03',), ret='r', ensures=[C('C04+C12.select.conn.stall_latched_reads_the_latch', 'r == self.spec_latched()')]))
    F(u.fn(CONN, 'clear_stall_latch', impl='SrtlaConnection', sub='select', ensures=[
        C('C12.select.clear_stall_latch.clears_only_the_latch', '*final(self) == (SrtlaConnection { stall_latched_since_ms: 0, stall_recovery_since_ms: 0, ..*old(self) })')]))
    F(u.fn(CONN, 'is_stall_gated', impl='SrtlaConnection', sub='select', ret='r', ensures=[C('C01+C04.select.conn.is_stall_gated_reads_the_gate_flag', 'r == self.stall_gated')]))
    F(u.fn(CONN, 'stall_probe_due', impl='SrtlaConnection', sub='batch', ret='r',
           post_rewrite=[],
           requires=['old(self).stall_probe_counter < 100'],
           ensures=[
               C('C01.batch.stall_probe_due.one_in_100', 'r == (old(self).stall_probe_counter + 1 >= 100)'),
               C('C01.batch.stall_probe_due.counter_cycles', 'final(self).stall_probe_counter == (if old(self).stall_probe_counter + 1 >= 100 { 0u32 } else { (old(self).stall_probe_counter + 1) as u32 })'),
               'final(self).stall_probe_counter < 100',
               C('C01+C12.batch.stall_probe_due.frame', '*final(self) == (SrtlaConnection { stall_probe_counter: final(self).stall_probe_counter, ..*old(self) })'),
           ]))
    F(u.fn(CONN, 'silence_pull_window_ms', impl='SrtlaConnection', sub='select', props=('C03',), ret='r',
           post_rewrite=[('(srtt as u64)', 'f64_to_u64(srtt)', 1)],
           ensures=[C('C13.select.silence_pull_window_ms.formula', 'r == self.spec_pull_window(stale_ceiling_ms)'),
                    C('C13.select.silence_pull_window_ms.capped_by_stale_window', 'r <= self.spec_eff_stale(stale_ceiling_ms)')]))
    F(u.fn(CONN, 'is_briefly_silent', impl='SrtlaConnection', sub='select', props=('C03',), ret='r', ensures=[
        C('C13.select.is_briefly_silent.formula', 'r == self.spec_briefly_silent(now_ms, min_in_flight, stale_ceiling_ms)')]))
    F(u.fn(CONN, 'update_silence_pull', impl='SrtlaConnection', sub='select', props=('C03',),
           requires=['old(self).silence_pulls < 0x7fff_ffff_ffff_ffff'], ensures=S.PULL_ENSURES))
    F(u.fn(CONN, 'is_timed_out', impl='SrtlaConnection', sub='select', props=('C03',), ret='r', ensures=[
        C('C03+C04+C08.select.is_timed_out.only_silence_and_the_configured_timeout', 'r == self.spec_timed_out(now_ms)')]))
    F(u.fn(CONN, 'clear_pre_registration_state', impl='SrtlaConnection', sub='acct',
           post_rewrite=[('CachedQuality::default()', 'cached_quality_default()', 1)],
           ensures=[
               C('C02+C05+C08.acct.clear_pre_registration_state.nothing_in_flight', 'final(self).in_flight_packets == 0 && final(self).packet_log@.len() == 0 && final(self).highest_acked_seq == i32::MIN'),
               C('C08.acct.clear_pre_registration_state.enters_warming', 'final(self).phase == (LinkPhase::Warming { rtt_probes: 0, entered_ms: now_ms })'),
               C('C06+C08.acct.clear_pre_registration_state.window_kept', 'final(self).window == old(self).window'),
               C('C01.acct.clear_pre_registration_state.queue_dropped', 'final(self).batch_sender.queue.len() == 0 && final(self).batch_sender.wf()'),
               'final(self).wf_count()', 'final(self).above_hw()', '!final(self).congestion.fast_recovery_mode',
               'final(self).connected == old(self).connected', 'final(self).conn_id == old(self).conn_id',
               C('C09+C13.acct.clear_pre_registration_state.liveness_and_delivery_proof_stamps_untouched',
                 'final(self).last_received == old(self).last_received && final(self).last_ack_or_rtt_sample_ms == old(self).last_ack_or_rtt_sample_ms'),
               C('C08+C14.acct.clear_pre_registration_state.retry_state_and_rtt_estimator_untouched', 'final(self).reconnection == old(self).reconnection && final(self).rtt == old(self).rtt'),
               C('C14.acct.clear_pre_registration_state.keepalive_cadence_clock_and_send_stamps_untouched',
                 'final(self).last_keepalive_sent == old(self).last_keepalive_sent && final(self).last_sent == old(self).last_sent'),
           ]))
    F(u.fn(CONN, 'reset_core_state', impl='SrtlaConnection', sub='acct', ensures=S.RESET_CORE_ENSURES))
    F(u.fn(CONN, 'mark_for_recovery', impl='SrtlaConnection', sub='acct', ensures=S.RESET_CORE_ENSURES_PUBLIC('mark_for_recovery') + [
        # a reset link has no keepalive outstanding: an echo of a keepalive sent BEFORE the reset must not yield an RTT sample / delivery proof
        C('C08+C09+C14.acct.mark_for_recovery.cancels_the_outstanding_rtt_probe_and_keepalive_stamps',
          '!final(self).rtt.waiting_for_keepalive_response && final(self).rtt.last_keepalive_sent_ms == 0 && final(self).last_keepalive_sent is None'),
        'final(self).last_received is None', 'final(self).reconnection.startup_grace_deadline_ms == 0',
        C('C08.acct.mark_for_recovery.keeps_the_retry_clock_the_backoff_and_the_establishment_stamp',
          '''final(self).reconnection.last_reconnect_attempt_ms == old(self).reconnection.last_reconnect_attempt_ms
            && final(self).reconnection.reconnect_failure_count == old(self).reconnection.reconnect_failure_count
            && final(self).reconnection.connection_established_ms == old(self).reconnection.connection_established_ms'''),
        'final(self).conn_id == old(self).conn_id',
    ]))
    F(u.fn(CONN, 'time_since_last_nak_ms', impl='SrtlaConnection', sub='select', ret='r',
           ensures=['r == (if self.congestion.last_nak_time_ms == 0 { None::<u64> } else { Some(sub_sat(now_ms, self.congestion.last_nak_time_ms)) })']))
    F(u.fn(CONN, 'total_nak_count', impl='SrtlaConnection', sub='select', ret='r', ensures=['r == self.congestion.nak_count']))
    F(u.fn(CONN, 'nak_burst_count', impl='SrtlaConnection', sub='select', ret='r', ensures=['r == self.congestion.nak_burst_count']))
    F(u.fn(CONN, 'connection_established_ms', impl='SrtlaConnection', sub='select', ret='r', ensures=['r == self.reconnection.connection_established_ms']))
    F(u.fn(CONN, 'get_cached_quality_multiplier', impl='SrtlaConnection', sub='select', ret='r',
           post_rewrite=[],
           ensures=[C('C12.select.get_cached_quality_multiplier.writes_only_the_cache', 'final(self).same_except_qc(old(self))'),
                    'r == final(self).quality_cache.multiplier',
                    'q_ok(old(self).quality_cache.multiplier) ==> q_ok(final(self).quality_cache.multiplier)',
                    C('C11.select.get_cached_quality_multiplier.idempotent_at_same_time', 'sub_sat(current_time_ms, old(self).quality_cache.last_calculated_ms) < 50 ==> final(self).quality_cache == old(self).quality_cache'),
                    'sub_sat(current_time_ms, old(self).quality_cache.last_calculated_ms) >= 50 ==> final(self).quality_cache.last_calculated_ms == current_time_ms && final(self).quality_cache.multiplier == spec_quality(old(self), current_time_ms)']))
    F(u.fn(CONN, 'should_attempt_reconnect', impl='SrtlaConnection', sub='reconn', ret='r', ensures=[C('C08.reconn.conn.should_attempt_reconnect_delegates', 'r == spec_should_reconnect(&self.reconnection, now_ms)')]))
    F(u.fn(CONN, 'record_reconnect_attempt', impl='SrtlaConnection', sub='reconn', ensures=[
        C('C08.reconn.conn.record_reconnect_attempt_stamps_now', 'final(self).reconnection.last_reconnect_attempt_ms == now_ms'), 'final(self).same_except_reconnection(old(self))']))
    F(u.fn(CONN, 'mark_reconnect_success', impl='SrtlaConnection', sub='reconn', ensures=[
        C('C08.reconn.mark_reconnect_success.backoff_restarts', 'final(self).reconnection.reconnect_failure_count == 0'), 'final(self).same_except_reconnection(old(self))',
        'final(self).reconnection.connection_established_ms == old(self).reconnection.connection_established_ms',
        'final(self).reconnection.last_reconnect_attempt_ms == old(self).reconnection.last_reconnect_attempt_ms',
        'final(self).reconnection.startup_grace_deadline_ms == old(self).reconnection.startup_grace_deadline_ms']))
    F(u.fn(CONN, 'update_phase', impl='SrtlaConnection', sub='reconn',
           post_rewrite=[(lambda t: __import__('rules').r18_guards_to_ifs(t, 'self.phase')[0], None, 1)], ensures=[
        C('C04+C08.reconn.update_phase.never_enters_or_leaves_registering', '(old(self).phase is Registering) == (final(self).phase is Registering)'),
        C('C12.reconn.update_phase.frame', 'final(self).same_except_phase(old(self))'),
        'final(self).phase is Warming ==> final(self).phase == old(self).phase']))
    F(u.fn(CONN, 'recompute_batch_regime', impl='SrtlaConnection', sub='batch',
           post_rewrite=[],
           requires=['old(self).batch_sender.wf()'],
           ensures=[C('C01.batch.recompute_batch_regime.keeps_the_queue', '''final(self).batch_sender.wf() && final(self).batch_sender.queue == old(self).batch_sender.queue && final(self).batch_sender.sequences == old(self).batch_sender.sequences
            && final(self).batch_sender.queue_times == old(self).batch_sender.queue_times && final(self).batch_sender.last_flush_ms == old(self).batch_sender.last_flush_ms'''),
                    C('C01+C12.batch.recompute_batch_regime.frame', 'final(self).same_except_batch_bitrate(old(self)) && final(self).bitrate == old(self).bitrate')]))
    F(u.fn(CONN, 'reset_for_reconnect', impl='SrtlaConnection', sub='acct', ensures=S.RESET_CORE_ENSURES_PUBLIC('reset_for_reconnect') + [
        'final(self).last_received is None', C('C06.acct.reset_for_reconnect.leaves_fast_recovery', '!final(self).congestion.fast_recovery_mode'),
        C('C14.acct.reset_for_reconnect.keepalive_cadence_clock_untouched', 'final(self).last_keepalive_sent == old(self).last_keepalive_sent && final(self).last_sent == old(self).last_sent'),
        C('C08.acct.reset_for_reconnect.retry_clock_and_backoff_restart', 'final(self).reconnection.last_reconnect_attempt_ms == now && final(self).reconnection.reconnect_failure_count == 0'),
        'final(self).conn_id == old(self).conn_id',
        'final(self).reconnection.connection_established_ms == old(self).reconnection.connection_established_ms',
        'final(self).reconnection.startup_grace_deadline_ms == old(self).reconnection.startup_grace_deadline_ms',
    ]))
    # ---- ack_nak.rs
    F(u.fn(A, 'register_packet', impl='SrtlaConnection', sub='acct',
           requires=['old(self).wf_count()', 'old(self).packet_log@.len() < 0x7fff_fff0'],
           ensures=[
               C('C02.acct.register_packet.adds_exactly_seq', 'final(self).packet_log@ == old(self).packet_log@.insert(seq, send_time_ms)'),
               C('C02+C05+C14.acct.register_packet.count_equals_set', 'final(self).wf_count()'),
               C('C02.acct.register_packet.keeps_log_above_high_water', 'old(self).above_hw() ==> final(self).above_hw()'),
               C('C02.acct.register_packet.frame', 'final(self).same_except_log_hw(old(self))'),
           ]))
    F(u.fn(A, 'handle_srt_ack', impl='SrtlaConnection', sub='acct',
           pre_rewrite=[('self.packet_log.retain(|&seq, _| seq > ack);', 'hashmap_retain_key(&mut self.packet_log, |seq: i32| -> (b: bool) ensures b == (seq > ack) { seq > ack });', 1)],
           requires=['old(self).wf_count()'],
           ensures=S.SRT_ACK_ENSURES,
           loops={0: dict(inv=S.SRT_ACK_LOOP_INV, dec='seq_end - seq_nx + 1')},
           splices=[('let old_highest = self.highest_acked_seq;', 'let ghost pre = *self;', 'before'),
                    ('self.packet_log.remove(&seq);', S.SRT_ACK_LOOP_PROOF, 'before'),
                    ('self.in_flight_packets = self.packet_log.len() as i32;', S.SRT_ACK_AFTER, 'after')]))
    F(u.fn(A, 'handle_nak', impl='SrtlaConnection', sub='acct', ret='found', qual='SrtlaConnection::handle_nak',
           requires=['old(self).wf_count()', 'win_ok(old(self).window)'],
           ensures=S.NAK_ENSURES))
    F(u.fn(A, 'handle_srtla_ack_specific', impl='SrtlaConnection', sub='acct', ret='found',
           requires=['old(self).wf_count()', 'win_ok(old(self).window)'],
           ensures=S.SRTLA_ACK_ENSURES))
    F(u.fn(A, 'handle_srtla_ack_global', impl='SrtlaConnection', sub='acct',
           requires=['win_ok(old(self).window)'],
           ensures=[
               C('C06+C08+C10.acct.handle_srtla_ack_global.plus_one_capped', 'final(self).window as int == (if old(self).connected && old(self).last_received is Some { if old(self).window + 1 <= 60000 { old(self).window + 1 } else { 60000int } } else { old(self).window as int })'),
               C('C06.acct.handle_srtla_ack_global.in_range', 'win_ok(final(self).window)'),
               C('C02+C06.acct.handle_srtla_ack_global.frame', '*final(self) == (SrtlaConnection { window: final(self).window, ..*old(self) })'),
           ]))
    # every remaining trivial accessor `pub fn name(&self) -> T { self.a.b }` of SrtlaConnection joins the world with the obvious contract, so a
    # change that starts calling one (e.g. `conn.stall_gate_events()` from the quality code) is decided instead of rejected by the front end
    src = read_src(CONN)
    for m in re.finditer(r'pub fn (\w+)\(&self\) -> (u8|u16|u32|u64|usize|i32|i64|bool|f64) \{\s*(self(?:\.\w+)+)\s*\}', src):
        name, expr = m.group(1), m.group(3)
        if 'SrtlaConnection::' + name in u.fn_overlays:
            continue
        try:
            F(u.fn(CONN, name, impl='SrtlaConnection', sub='select', ret='r', ensures=['r == ' + expr]))
        except Exception:
            pass
    u.add(impl_block('SrtlaConnection', fns))
    u.add(S.CONN_FLOAT_STUBS)
    u.add(impl_block('SrtlaConnection', [u.fn(CONN, 'queue_building_suspected', impl='SrtlaConnection', sub='select', ret='r', ensures=['r == self.spec_queue_building()'])]))


# ------------------------------------------------------------------ selection
def add_selection(u):
    Q = K + 'selection/quality.rs'
    u.add(S.QUALITY_STUB)
    u.add(u.consts(Q))
    u.add(u.fn(Q, 'calculate_rtt_bonus', sub='select', ret='r', ensures=[C('C11.select.quality.rtt_bonus_is_the_documented_function_of_the_smoothed_rtt', 'r == spec_rtt_bonus(conn)')]))
    u.add(u.fn(Q, 'calculate_quality_multiplier_uncached', sub='select', ret='r',
               post_rewrite=[('(-(nak_age_ms as f64) / HALF_LIFE_MS).exp()', 'f64_exp_neg_ratio(cast_u64_f64(nak_age_ms), HALF_LIFE_MS)', 1)],
               ensures=[C('C11+C12.select.quality.multiplier_is_the_documented_function_of_age_nak_history_and_rtt', 'r == spec_quality(conn, current_time_ms)')],
               splices=[('@BEGIN', '    proof { reveal(spec_quality); }', 'after')]))
    u.add(u.fn(Q, 'calculate_quality_multiplier', sub='select', ret='r',
               ensures=[C('C11+C12.select.quality.multiplier_is_the_documented_function_of_age_nak_history_and_rtt', 'r == spec_quality(conn, current_time_ms)'), 'q_ok(r)'],
               splices=[('@BEGIN', '    proof { lemma_quality_in_range(conn, current_time_ms); }', 'after')]))
    u.add(mod_block('classic', u.fn(K + 'selection/classic.rs', 'select_connection', sub='select', props=('C03',), ret='r', qual='classic::select_connection',
                                    requires=[S.WF_SEL('conns')], ensures=S.CLASSIC_ENSURES, loops={0: dict(inv=S.CLASSIC_INV, dec='conns.len() - i_nx')})))
    E = K + 'selection/enhanced.rs'
    ebody = [u.consts(E, names=['IN_FLIGHT_CAP_BDP_MULT', 'SWITCH_THRESHOLD', 'CC_SOFT_CAP_FLOOR', 'GATED_LINK_PENALTY']),
             u.item(K + 'selection/link_cc.rs', 'const', 'ASSUMED_SRT_PAYLOAD_BYTES'),
             S.ENH_STUBS,
             # the soft-cap factor is a verified body against an explicit spec function (was an external body with an assumed range)
             u.fn(E, 'cc_soft_cap_multiplier', sub='select', ret='r', qual='enhanced::cc_soft_cap_multiplier',
                  post_rewrite=[('cap as f64', 'cast_u64_f64(cap)', 1)],
                  ensures=[C('C11+C12.select.enhanced.soft_cap_factor_is_the_documented_function_of_cc_target_and_measured_bitrate', 'r == spec_soft_cap(conn)'), 'cap_ok(r)'],
                  splices=[('@BEGIN', '    proof { reveal(spec_soft_cap); lemma_soft_cap_in_range(conn); }', 'after')]),
             # the cold logging helper is a verified body, not a stub: a stub with a `&` parameter would hide a change that makes it mutate the link
             u.fn(E, 'log_quality_state', sub='select', qual='enhanced::log_quality_state'),
             u.fn(E, 'in_flight_cap_packets', sub='select', ret='r', qual='enhanced::in_flight_cap_packets',
                  post_rewrite=[('(cc_target_bps as f64)', 'cast_u64_f64(cc_target_bps)', 1), ('ASSUMED_SRT_PAYLOAD_BYTES as f64', 'cast_u64_f64(ASSUMED_SRT_PAYLOAD_BYTES)', 1),
                                ('Some(cap.min(i32::MAX as f64) as i32)', 'Some(cast_f64_i32(cap.min(cast_i32_f64(i32::MAX))))', 1)],
                  ensures=[C('C11.select.enhanced.in_flight_cap_is_the_documented_cap_and_1ms_without_an_rtt_baseline', 'r == spec_cap_packets(cc_target_bps, rtt_min_ms)')],
                  splices=[('@BEGIN', '    proof { reveal(spec_cap_packets); }', 'after')]),
             u.fn(E, 'in_flight_cap_exceeded', sub='select', ret='r', qual='enhanced::in_flight_cap_exceeded',
                  pre_rewrite=[(re.compile(r'in_flight_cap_packets\(c\.cc_target_bps, c\.get_rtt_min_ms\(\)\)\s*\.map\(\|cap\| c\.in_flight_packets > cap\)\s*\.unwrap_or\(false\)'),
                                '(match in_flight_cap_packets(c.cc_target_bps, c.get_rtt_min_ms()) { Some(cap) => c.in_flight_packets > cap, None => false })', 1)],
                  ensures=[C('C03+C11.select.enhanced.in_flight_cap_exceeded_matches_spec', 'r == spec_cap_exceeded(c)')]),
             S.ANY_UNCONSTRAINED_HELPER(u),
             u.fn(E, 'select_connection', sub='select', ret='r', qual='enhanced::select_connection', props=('C03',),
                  pre_rewrite=[(re.compile(r'let any_unconstrained = conns\.iter\(\)\.any\(\|c\| \{.*?\}\);', re.S),
                                'let any_unconstrained = any_unconstrained_helper(conns, current_time_ms);', 1),
                               ('c.get_score() as f64', 'cast_i32_f64(c.get_score())', 1)],
                  requires=[S.WF_SEL('old(conns)')], ensures=S.ENH_ENSURES,
                  loops={0: dict(inv=S.ENH_INV, dec='conns.len() - i_nx')},
                  splices=S.ENH_SPLICES)]
    u.add(mod_block('enhanced', '\n'.join(ebody), uses='use super::*; broadcast use super::fax::group_f64_total;'))
    u.add(S.GATE_PREDS)
    u.add(S.GATE_HELPER(u))
    u.add(u.fn(K + 'selection/mod.rs', 'apply_stall_gate', sub='select', props=('C03',),
               pre_rewrite=[(re.compile(r'let any_healthy = conns\.iter\(\)\.any\(\|c\| \{.*?\}\);', re.S),
                             'let any_healthy = any_healthy_helper(conns, current_time_ms);', 1)],
               # loop_isolation(false): what is known before a loop about values the loop does not change (old(conns), the entry
               # snapshots) stays known inside and after it, so loop clauses only describe what THAT loop does, relative to its
               # own entry snapshot `c_entry`; whether the passes add up to the contract is decided at the exits
               attrs='#[verifier::loop_isolation(false)]\n',
               requires=S.GATE_REQUIRES, ensures=S.GATE_ENSURES,
               loops={k: dict(inv=inv, dec='conns.len() - c_nx') for k, inv in S.GATE_LOOPS.items()},
               splices=S.GATE_SPLICES))
    u.add(u.fn(K + 'selection/mod.rs', 'select_connection_idx', sub='select', ret='r', props=('C03',),
               post_rewrite=[(S.IDX_ANCHOR_REWRITE, None, 1)],
               requires=S.IDX_REQUIRES, ensures=S.IDX_ENSURES, splices=S.IDX_SPLICES))
    u.add(u.fn(K + 'priority.rs', 'select_best_quality_idx', sub='select', ret='r',
               post_rewrite=[('let mut best_idx = None;', 'let mut best_idx: Option<usize> = None;', 1)],
               ensures=S.BESTQ_ENSURES, loops={0: dict(inv=S.BESTQ_INV, dec='conns.len() - i_nx')}))
