import world
def build():
    return world.build('core_all', active=None)
