"""Overlay text for the core world: spec functions, stubs, contract clause lists.
Top-level postconditions quote the literals of the property statements (100, 1000,
60000, 20000, 2000, 12000, 29, 2x, 1.10, 0.02, 0.8, 5 s, 120 s ...), never the
constants of /repo (those are extracted), so a changed constant fails the clause."""
from gen import C

STUBS = r'''
// ---------- trusted stubs for constructs outside the Verus subset ----------
#[verifier::external_type_specification] #[verifier::external_body] pub struct ExIpAddr(std::net::IpAddr);

pub uninterp spec fn spec_f64_to_u64(x: f64) -> u64;
pub uninterp spec fn spec_f64_to_u32(x: f64) -> u32;
#[verifier::external_body] pub fn f64_to_u64(x: f64) -> (r: u64) ensures r == spec_f64_to_u64(x) { x as u64 }
#[verifier::external_body] pub fn f64_to_u32(x: f64) -> (r: u32) ensures r == spec_f64_to_u32(x) { x as u32 }

// R-zip3: `queue.drain(..).zip(sequences.drain(..)).zip(queue_times.drain(..)).map(..).collect()`.
// zip truncates silently, so "no datagram lost or mis-paired" rests on the equal-length precondition,
// which is a real obligation at the call site.  Pairing semantics cross-checked by Kani (kx: drain_pairs).
#[verifier::external_body]
pub fn zip3_drain(q: &mut Vec<Vec<u8>>, s: &mut Vec<Option<u32>>, t: &mut Vec<u64>) -> (r: Vec<(Vec<u8>, Option<u32>, u64)>)
    requires old(q).len() == old(s).len(), old(s).len() == old(t).len(),
    ensures final(q).len() == 0, final(s).len() == 0, final(t).len() == 0, r.len() == old(q).len(),
        forall|i: int| 0 <= i < r.len() ==> #[trigger] r[i] == (old(q)[i], old(s)[i], old(t)[i]),
{ q.drain(..).zip(s.drain(..)).zip(t.drain(..)).map(|((a, b), c)| (a, b, c)).collect() }

// R11: HashMap::retain(|&k, _| E)  ->  hashmap_retain_key(&mut m, |k| -> (b) ensures b == (E) { E })
#[verifier::external_body]
pub fn hashmap_retain_key<F: Fn(i32) -> bool>(m: &mut HashMap<i32, u64>, f: F)
    requires forall|k: i32| #[trigger] f.requires((k,)),
    ensures
        forall|k: i32| #[trigger] final(m)@.contains_key(k) ==> old(m)@.contains_key(k) && final(m)@[k] == old(m)@[k] && f.ensures((k,), true),
        forall|k: i32| old(m)@.contains_key(k) && !#[trigger] final(m)@.contains_key(k) ==> f.ensures((k,), false),
        final(m)@.len() <= old(m)@.len(),
{ m.retain(|&k, _| f(k)); }

// Default impls (derive / hand written `impl Default`) used by the constructors
#[verifier::external_body] pub fn rtt_tracker_default() -> (r: RttTracker)
    ensures !r.waiting_for_keepalive_response, r.last_keepalive_sent_ms == 0, r.last_rtt_measurement_ms == 0 { unimplemented!() }
#[verifier::external_body] pub fn congestion_default() -> (r: CongestionControl)
    ensures !r.fast_recovery_mode, r.nak_count == 0, r.nak_burst_count == 0, r.last_nak_time_ms == 0 { unimplemented!() }
#[verifier::external_body] pub fn cached_quality_default() -> (r: CachedQuality)
    ensures r.multiplier == 1.0f64, r.last_calculated_ms == 0, q_ok(r.multiplier) { unimplemented!() }
#[verifier::external_body] pub fn reconnection_default_with_grace(g: u64) -> (r: ReconnectionState)
    ensures r.startup_grace_deadline_ms == g, r.last_reconnect_attempt_ms == 0, r.reconnect_failure_count == 0, r.connection_established_ms == 0
{ unimplemented!() }

// srtla-protocol functions used by the core (contracts proved in unit `proto` / by Kani on the real crate)
// Kani (kx: keepalive_ext_roundtrip) proves on the real builder/decoder, for every info and now:
// len == 38, extract_keepalive_timestamp == Some(now), extract_keepalive_conn_info == Some(info), first 10 bytes == create_keepalive_packet(now)
#[verifier::external_body] pub fn create_keepalive_packet_ext(info: ConnectionInfo, now: u64) -> (r: [u8; 38])
    ensures spec_keepalive_ts(r@) == Some(now), spec_keepalive_info(r@) == Some(info) { unimplemented!() }
#[verifier::external_body] pub fn create_reg2_packet(id: &[u8; 256]) -> (r: [u8; 258]) { unimplemented!() }
'''

SPEC = r'''
// ---------- spec layer ----------
pub const CLOCK_MAX: u64 = 0x4000_0000_0000_0000;   // machine-arithmetic bound on every clock value (2^62 ms)
pub open spec fn win_ok(w: i32) -> bool { 1000 <= w <= 60000 }

pub open spec fn spec_ack_window(w: i32, in_flight: i32) -> i32 {
    if sat_i32(in_flight * 1000) > w { if w + 29 <= 60000 { (w + 29) as i32 } else { 60000i32 } } else { w }
}

pub open spec fn spec_phase_weight(p: LinkPhase) -> f64 {
    match p { LinkPhase::Registering => 0.0f64, LinkPhase::Warming { .. } => 0.8f64, _ => 1.0f64 }
}

pub open spec fn spec_batch_size(r: &BatchRegime) -> usize {
    match r { BatchRegime::LowActivity => 4usize, BatchRegime::Normal => 16usize, BatchRegime::HighLoad => 32usize }
}

impl BatchSender {
    pub open spec fn wf(&self) -> bool {
        self.queue.len() == self.sequences.len() && self.sequences.len() == self.queue_times.len() && self.queue.len() < 0x7fff_ffff
    }
    pub open spec fn view_at(&self, i: int) -> (Seq<u8>, Option<u32>, u64) { (self.queue[i]@, self.sequences[i], self.queue_times[i]) }
}

pub open spec fn spec_backoff(n: u32) -> u64 {
    if n == 0 { 5000 } else if n == 1 { 10000 } else if n == 2 { 20000 } else if n == 3 { 40000 } else if n == 4 { 80000 } else { 120000 }
}
pub proof fn lemma_shift_backoff(c: u32)
    requires c <= 5,
    ensures (1u64 << c) == (if c == 0 { 1u64 } else if c == 1 { 2u64 } else if c == 2 { 4u64 } else if c == 3 { 8u64 } else if c == 4 { 16u64 } else { 32u64 }),
{
    assert(c <= 5 ==> (1u64 << c) == (if c == 0 { 1u64 } else if c == 1 { 2u64 } else if c == 2 { 4u64 } else if c == 3 { 8u64 } else if c == 4 { 16u64 } else { 32u64 })) by (bit_vector);
}
pub open spec fn spec_should_reconnect(rs: &ReconnectionState, now: u64) -> bool {
    if rs.connection_established_ms == 0 {
        if now <= rs.startup_grace_deadline_ms { false }
        else if rs.last_reconnect_attempt_ms == 0 { true }
        else { sub_sat(now, rs.last_reconnect_attempt_ms) >= 1000 }
    } else if rs.last_reconnect_attempt_ms == 0 { true }
    else { sub_sat(now, rs.last_reconnect_attempt_ms) >= spec_backoff(rs.reconnect_failure_count) }
}

pub open spec fn spec_srtt(x: f64) -> f64 { spec_f64_max(x, 0.0f64) }
pub open spec fn sat_mul_u64(a: u64, b: u64) -> u64 { if a * b > u64::MAX { u64::MAX } else { (a * b) as u64 } }
pub open spec fn max_u64(a: u64, b: u64) -> u64 { if a >= b { a } else { b } }
pub open spec fn min_u64(a: u64, b: u64) -> u64 { if a <= b { a } else { b } }

// the quality multiplier as the documented function of the link's NAK history, age and smoothed RTT (float operations uninterpreted; the
// range [0.35, 1.1 x 1.03] is Kani's: kx quality_multiplier_range).  Opaque: selection proofs only need it to be a function of (link, time);
// what the definition buys is (a) the real body is checked against it, (b) lemma_quality_ignores_stall_history.
pub uninterp spec fn spec_exp_neg_ratio(a: f64, h: f64) -> f64;      // exp(-a / h)
#[verifier::external_body] pub fn f64_exp_neg_ratio(a: f64, h: f64) -> (r: f64) ensures r == spec_exp_neg_ratio(a, h) { (-a / h).exp() }
pub open spec fn spec_rtt_bonus(c: &SrtlaConnection) -> f64 {
    let s = spec_srtt(c.rtt.kalman_rtt.x);
    if fle(s, 0.0f64) { 1.0f64 } else { spec_f64_max(spec_f64_min((200.0f64).div_spec(spec_f64_max(s, 50.0f64)), 1.03f64), 1.0f64) }
}
#[verifier::opaque]
pub open spec fn spec_quality(c: &SrtlaConnection, now: u64) -> f64 {
    if sub_sat(now, c.reconnection.connection_established_ms) < 30_000 {
        if c.congestion.nak_count == 0 { 1.1f64 } else { 0.98f64 }
    } else {
        let qm = if c.congestion.last_nak_time_ms != 0 {
            let age = sub_sat(now, c.congestion.last_nak_time_ms);
            let mult = (1.0f64).sub_spec((0.5f64).mul_spec(spec_exp_neg_ratio(u64_to_f64(age), 2000.0f64)));
            if c.congestion.nak_burst_count >= 5 && age < 3000 { mult.mul_spec(0.7f64) } else { mult }
        } else if c.congestion.nak_count == 0 { 1.1f64 } else { 1.0f64 };
        qm.mul_spec(spec_rtt_bonus(c))
    }
}
// ASSUMED here, proved by Kani on the real function (kx: quality_multiplier_range): the multiplier stays in its documented range
#[verifier::external_body] pub proof fn lemma_quality_in_range(c: &SrtlaConnection, now: u64) ensures q_ok(spec_quality(c, now)) {}
// C12: the quality factor reads no stall state -- two links that differ only in stall history (flags, latch, rejoin run, engagement counter,
// probe counter, pull state) score the same
pub proof fn lemma_quality_ignores_stall_history(a: &SrtlaConnection, b: &SrtlaConnection, now: u64)
    requires a.reconnection == b.reconnection, a.congestion == b.congestion, a.rtt == b.rtt,
    ensures spec_quality(a, now) == spec_quality(b, now),  // @ob C11+C12.select.quality.depends_only_on_age_nak_history_and_rtt_never_on_stall_history
{ reveal(spec_quality); }
// ---- float-lemma table: ASSUMED here, PROVED bit-precisely by Kani on real f64 arithmetic (kx/src/lemmas.rs, same formulas) ----
pub open spec fn q_ok(q: f64) -> bool { fge(q, 0.35f64) && fle(q, 1.2f64) }      // quality multiplier range [0.35, 1.1*1.03 <= 1.2]
pub open spec fn cap_ok(c: f64) -> bool { fge(c, 0.1f64) && fle(c, 1.0f64) }     // soft-cap factor range [0.1, 1]
pub uninterp spec fn i32_to_f64(x: i32) -> f64;
#[verifier::external_body] pub fn cast_i32_f64(x: i32) -> (r: f64) ensures r == i32_to_f64(x) { x as f64 }
#[verifier::external_body] pub proof fn lemma_score_gt_neg1(s: i32, w: f64, q: f64, cap: f64, gate: f64)
    requires s >= 0, w == 0.8f64 || w == 1.0f64, q_ok(q), cap_ok(cap), gate == 0.02f64 || gate == 1.0f64,
    ensures fgt(i32_to_f64(s).mul_spec(w).mul_spec(q).mul_spec(cap).mul_spec(gate), -1.0f64),
        fgt(i32_to_f64(s).mul_spec(w).mul_spec(cap).mul_spec(gate), -1.0f64),
{ }
#[verifier::external_body] pub proof fn lemma_one_is_q_ok() ensures q_ok(1.0f64) { }
// the documented in-flight cap: max(1, target * rtt_s / 8 * 1.5 / 1316) packets; a link without a usable RTT baseline (non-positive or
// non-finite minimum) is capped as if its RTT were 1 ms.  Float operations stay uninterpreted (IEEE semantics: Kani, kx/src/sel.rs); what is
// pinned here is WHICH operations on WHICH operands.  Opaque: the selection proofs only need it to be a function of (target, rtt_min).
pub open spec fn anchor_in_range(a: Option<usize>, n: int) -> Option<usize> { if a is Some && a.unwrap() < n { a } else { None } }
pub uninterp spec fn u64_to_f64(x: u64) -> f64;
pub uninterp spec fn f64_to_i32_sat(x: f64) -> i32;
#[verifier::external_body] pub fn cast_u64_f64(x: u64) -> (r: f64) ensures r == u64_to_f64(x) { x as f64 }
#[verifier::external_body] pub fn cast_f64_i32(x: f64) -> (r: i32) ensures r == f64_to_i32_sat(x) { x as i32 }
pub open spec fn spec_cap_rtt(rtt_min: f64) -> f64 { if spec_f64_is_finite(rtt_min) && fgt(rtt_min, 0.0f64) { rtt_min } else { 1.0f64 } }
#[verifier::opaque]
pub open spec fn spec_cap_packets(target: u64, rtt_min: f64) -> Option<i32> {
    if target == 0 { None } else {
        let bdp = u64_to_f64(target).mul_spec(spec_cap_rtt(rtt_min).div_spec(1000.0f64)).div_spec(8.0f64).mul_spec(1.5f64);
        let cap = spec_f64_max(spec_f64_floor(bdp.div_spec(u64_to_f64(1316u64))), 1.0f64);
        Some(f64_to_i32_sat(spec_f64_min(cap, i32_to_f64(i32::MAX))))
    }
}
pub open spec fn spec_cap_exceeded(c: &SrtlaConnection) -> bool {
    match spec_cap_packets(c.cc_target_bps, c.rtt.rtt_min_ms) { Some(cap) => c.in_flight_packets > cap, None => false }
}

impl SrtlaConnection {
    // ---- accounting (C02) ----
    pub open spec fn wf_count(&self) -> bool {
        self.in_flight_packets == self.packet_log@.len() && self.packet_log@.len() <= 0x7fff_ffff
    }
    pub open spec fn above_hw(&self) -> bool {
        self.highest_acked_seq == i32::MIN || forall|k: i32| #[trigger] self.packet_log@.contains_key(k) ==> k > self.highest_acked_seq
    }
    pub open spec fn wf(&self) -> bool { self.wf_count() && self.above_hw() && win_ok(self.window) && self.latch_wf() }

    // ---- liveness / eligibility (C03, C04, C08) ----
    pub open spec fn spec_timed_out(&self, now: u64) -> bool {
        if !self.connected {
            if self.reconnection.connection_established_ms == 0 && now < self.reconnection.startup_grace_deadline_ms { false }
            else { match self.last_received { None => true, Some(lr) => sub_sat(now, lr) >= self.conn_timeout_ms } }
        } else { match self.last_received { Some(lr) => sub_sat(now, lr) >= self.conn_timeout_ms, None => false } }
    }
    pub open spec fn latch_wf(&self) -> bool { self.stall_latched_since_ms == 0 ==> self.stall_recovery_since_ms == 0 }
    pub open spec fn spec_sched(&self) -> bool { !(self.phase is Registering) }
    pub open spec fn spec_latched(&self) -> bool { self.stall_latched_since_ms != 0 }
    pub open spec fn usable(&self, now: u64) -> bool { self.connected && self.spec_sched() && !self.spec_timed_out(now) }
    pub open spec fn healthy(&self, now: u64) -> bool {
        self.connected && !self.spec_timed_out(now) && self.spec_sched() && !self.spec_latched() && !self.silence_pulled
    }
    pub open spec fn eligible(&self, now: u64) -> bool { !self.spec_timed_out(now) && self.spec_sched() && !self.stall_gated }
    pub open spec fn spec_score(&self) -> int {
        if !self.connected { -1 } else {
            let t = sat_i32(self.in_flight_packets + self.batch_sender.queue.len());
            let d0 = sat_i32(t + 1);
            let d = if d0 >= 1 { d0 } else { 1i32 };
            self.window as int / d as int
        }
    }

    // ---- stall guard (C13) ----
    pub open spec fn spec_eff_stale(&self, ceiling: u64) -> u64 {
        let srtt = spec_srtt(self.rtt.kalman_rtt.x);
        if fle(srtt, 0.0f64) { ceiling } else { min_u64(max_u64(sat_mul_u64(spec_f64_to_u64(srtt), 4), 1000), ceiling) }
    }
    pub open spec fn spec_pull_window(&self, ceiling: u64) -> u64 {
        let srtt = spec_srtt(self.rtt.kalman_rtt.x);
        let base = if fle(srtt, 0.0f64) { 250u64 } else { max_u64(sat_mul_u64(spec_f64_to_u64(srtt), 2), 250) };
        min_u64(base, self.spec_eff_stale(ceiling))
    }
    pub open spec fn proof_stale(&self, now: u64, ceiling: u64) -> bool {
        self.last_ack_or_rtt_sample_ms != 0 && sub_sat(now, self.last_ack_or_rtt_sample_ms) >= self.spec_eff_stale(ceiling)
    }
    pub open spec fn proof_fresh(&self, now: u64, ceiling: u64) -> bool {
        self.last_ack_or_rtt_sample_ms != 0 && sub_sat(now, self.last_ack_or_rtt_sample_ms) < self.spec_eff_stale(ceiling)
    }
    pub open spec fn spec_stalled(&self, now: u64, min_in_flight: i32, ceiling: u64) -> bool {
        self.connected && self.in_flight_packets >= min_in_flight && self.proof_stale(now, ceiling)
    }
    pub open spec fn spec_briefly_silent(&self, now: u64, min_in_flight: i32, ceiling: u64) -> bool {
        self.connected && self.in_flight_packets >= min_in_flight
            && (match self.last_received { Some(lr) => sub_sat(now, lr) >= self.spec_pull_window(ceiling), None => false })
    }
    pub open spec fn heard_recently(&self, now: u64, ceiling: u64) -> bool {
        match self.last_received { Some(lr) => sub_sat(now, lr) < self.spec_pull_window(ceiling), None => false }
    }
    // fields that update_stall_latch / update_silence_pull never touch besides the accounting frame
    pub open spec fn same_cfg_cache(&self, o: &SrtlaConnection) -> bool {
        self.conn_timeout_ms == o.conn_timeout_ms && self.quality_cache == o.quality_cache && self.stall_gated == o.stall_gated
    }
}
'''

PERFORM_WINDOW_RECOVERY_STUB = r'''
// perform_window_recovery contains an f64 -> i32 cast and float scaling: decided by Kani on the real code
// (kx: window_recovery_*), imported here with exactly the clauses that harness proves.
#[verifier::external_body]
pub fn perform_window_recovery(window: &mut i32, connected: bool, last_nak_time_ms: u64, nak_burst_count: &mut i32,
    nak_burst_start_time_ms: &mut u64, last_window_increase_ms: &mut u64, fast_recovery_mode: &mut bool,
    rtt_velocity: f64, label: &str, now_ms: u64)
    requires win_ok(*old(window)),
    ensures win_ok(*final(window)), *old(window) <= *final(window), !connected ==> *final(window) == *old(window),
        *old(fast_recovery_mode) && !*final(fast_recovery_mode) ==> *final(window) >= 12000,
        !*old(fast_recovery_mode) ==> !*final(fast_recovery_mode),
{ unimplemented!() }
'''

RTT_STUBS = r'''
impl RttTracker {
    // float-heavy estimator (VecDeque fold, Kalman update): outside the Verus subset.  Frame assumption
    // (checked by the syntactic audit `rtt_update_estimate_frame`): it never writes the keepalive-probe fields.
    #[verifier::external_body]
    pub fn update_estimate(&mut self, rtt_ms: u64, now_ms: u64)
        ensures final(self).waiting_for_keepalive_response == old(self).waiting_for_keepalive_response,
            final(self).last_keepalive_sent_ms == old(self).last_keepalive_sent_ms,
    { unimplemented!() }
}
impl RttTracker {
    pub open spec fn spec_gradient(&self) -> f64 { spec_f64_max(self.rtt_min_fast_ms.sub_spec(self.rtt_min_slow_ms), 0.0f64) }
    pub open spec fn spec_queue_building(&self) -> bool {
        self.kalman_rtt.initialized && spec_f64_is_finite(self.rtt_min_ms)
        && fgt(self.spec_gradient(), spec_f64_max((3.0f64).mul_spec(self.rtt_masd_ms), (0.05f64).mul_spec(self.rtt_min_ms)))
    }
}
#[verifier::external_body] pub fn vecdeque_f64_clear(v: &mut VecDeque<f64>) { v.clear(); }
'''

CONN_FLOAT_STUBS = r'''
impl SrtlaConnection {
    // the standing-queue signal as the documented function of the tracker's floors (float operations uninterpreted): the real bodies of
    // RttTracker::rtt_gradient_ms / queue_building_suspected and of the wrapper are verified against it
    pub open spec fn spec_queue_building(&self) -> bool { self.rtt.spec_queue_building() }
    // BitrateTracker::calculate: float division; writes the bitrate tracker only (frame assumption, syntactic audit)
    #[verifier::external_body]
    pub fn calculate_bitrate(&mut self, now_ms: u64) ensures final(self).same_except_bitrate(old(self)) { unimplemented!() }
}
'''

QUALITY_STUB = ''

ENH_STUBS = r'''
// the soft-cap factor as the documented function of the CC target and the measured bitrate only (float operations uninterpreted; the
// range [0.1, 1] is Kani's: kx soft_cap_range on the real function).  Opaque: selection proofs need only that it is a function of the link;
// the definition buys (a) the real body checked against it, (b) lemma_soft_cap_ignores_stall_history.
#[verifier::opaque]
pub open spec fn spec_soft_cap(c: &SrtlaConnection) -> f64 {
    if c.cc_target_bps == 0 { 1.0f64 }
    else if fle(c.bitrate.current_bitrate_bps, 0.0f64) { 1.0f64 }
    else {
        let cap_f = u64_to_f64(c.cc_target_bps);
        spec_f64_clamp(spec_f64_max(cap_f.sub_spec(c.bitrate.current_bitrate_bps), 0.0f64).div_spec(cap_f), 0.1f64, 1.0f64)
    }
}
// ASSUMED here, proved by Kani on the real function (kx: soft_cap_range): the factor stays in [floor, 1]
#[verifier::external_body] pub proof fn lemma_soft_cap_in_range(c: &SrtlaConnection) ensures cap_ok(spec_soft_cap(c)) {}
// C12: the soft-cap factor reads no stall state -- two links with the same CC target and measured bitrate get the same factor
pub proof fn lemma_soft_cap_ignores_stall_history(a: &SrtlaConnection, b: &SrtlaConnection)
    requires a.cc_target_bps == b.cc_target_bps, a.bitrate == b.bitrate,
    ensures spec_soft_cap(a) == spec_soft_cap(b),  // @ob C11+C12.select.soft_cap.depends_only_on_cc_target_and_measured_bitrate_never_on_stall_history
{ reveal(spec_soft_cap); }
'''

# ------------------------------------------------------------------ stall latch / pull (C13, C12)
_FRAME_LATCH = C('C01+C04+C12.select.update_stall_latch.touches_only_latch_fields',
                 '''old(self).same_acct(final(self)) && final(self).same_cfg_cache(old(self))
            && final(self).silence_pulled == old(self).silence_pulled && final(self).silence_pulls == old(self).silence_pulls''')
# ---- C13 [L]: the step contract as one relation over (pre, post, clock, thresholds), and what a chain of decisions amounts to
LATCH_TRACE = r"""
pub struct LatchDecision { pub pre: SrtlaConnection, pub post: SrtlaConnection, pub now: u64, pub min_in_flight: i32, pub ceiling: u64 }
// exactly the rejoin-related clauses of update_stall_latch's contract, as a relation
pub open spec fn latch_step(d: LatchDecision) -> bool {
    &&& (d.pre.spec_latched() && !d.post.spec_latched() ==> d.pre.proof_fresh(d.now, d.ceiling) && d.pre.stall_recovery_since_ms != 0
            && sub_sat(d.now, d.pre.stall_recovery_since_ms) >= sat_mul_u64(d.pre.spec_eff_stale(d.ceiling), 2))
    &&& (d.pre.spec_latched() && !d.pre.proof_fresh(d.now, d.ceiling) ==> d.post.stall_recovery_since_ms == 0 && d.post.spec_latched())
    &&& (d.post.stall_recovery_since_ms == 0 || d.post.stall_recovery_since_ms == d.pre.stall_recovery_since_ms || d.post.stall_recovery_since_ms == d.now)
    &&& (d.post.stall_recovery_since_ms != 0 ==> d.pre.proof_fresh(d.now, d.ceiling) && d.post.spec_latched())
    &&& (d.post.stall_recovery_since_ms != 0 && d.pre.stall_recovery_since_ms != 0 ==> d.post.stall_recovery_since_ms == d.pre.stall_recovery_since_ms)
}
// consecutive scheduling decisions on one link: whatever happens in between (ACKs, echoes, traffic) leaves the two latch stamps alone
// (that is the frame of every other function: C12) and the clock does not run backwards
pub open spec fn latch_chain(tr: Seq<LatchDecision>) -> bool {
    &&& forall|i: int| 0 <= i < tr.len() ==> latch_step(#[trigger] tr[i]) && tr[i].now > 0
    &&& forall|i: int, i2: int| 0 <= i && i2 == i + 1 && i2 < tr.len() ==> (#[trigger] tr[i2]).pre.stall_recovery_since_ms == (#[trigger] tr[i]).post.stall_recovery_since_ms && tr[i].now <= tr[i2].now
}
// searching backwards for the decision that started the run which is in progress before decision j
pub proof fn lemma_run_start(tr: Seq<LatchDecision>, n: int, j: int) -> (k: int)
    requires latch_chain(tr), 0 <= j <= n < tr.len(), tr[0].pre.stall_recovery_since_ms == 0, tr[n].pre.stall_recovery_since_ms != 0,
        forall|i: int| j <= i <= n ==> (#[trigger] tr[i]).pre.stall_recovery_since_ms == tr[n].pre.stall_recovery_since_ms,
        forall|i: int| j <= i < n ==> (#[trigger] tr[i]).pre.proof_fresh(tr[i].now, tr[i].ceiling),
    ensures 0 <= k < j, tr[k].now == tr[n].pre.stall_recovery_since_ms,
        forall|i: int| k <= i < n ==> (#[trigger] tr[i]).pre.proof_fresh(tr[i].now, tr[i].ceiling),
    decreases j,
{
    let r = tr[n].pre.stall_recovery_since_ms;
    assert(j > 0);                       // tr[0].pre has no run, tr[j].pre has run r != 0
    let d = tr[j - 1];
    assert(latch_step(d));
    assert(tr[j].pre.stall_recovery_since_ms == d.post.stall_recovery_since_ms);
    assert(d.post.stall_recovery_since_ms == r);
    assert(d.pre.proof_fresh(d.now, d.ceiling));
    if d.pre.stall_recovery_since_ms == r {
        lemma_run_start(tr, n, j - 1)
    } else {
        assert(d.pre.stall_recovery_since_ms == 0);
        assert(r == d.now);
        j - 1
    }
}
// the history clause of C13: a latch released at decision n was preceded by a run of decisions k..n that ALL saw fresh delivery proof,
// started at least twice the effective window before the release
pub proof fn lemma_rejoin_needs_a_fresh_run_of_twice_the_window(tr: Seq<LatchDecision>, n: int) -> (k: int)
    requires latch_chain(tr), 0 <= n < tr.len(), tr[0].pre.stall_recovery_since_ms == 0,
        tr[n].pre.spec_latched() && !tr[n].post.spec_latched(),
    ensures 0 <= k < n,
        forall|i: int| k <= i <= n ==> (#[trigger] tr[i]).pre.proof_fresh(tr[i].now, tr[i].ceiling),  // @ob C13.select.lemma.every_decision_of_the_run_saw_fresh_proof
        sub_sat(tr[n].now, tr[k].now) >= sat_mul_u64(tr[n].pre.spec_eff_stale(tr[n].ceiling), 2),  // @ob C13.select.lemma.the_run_lasted_twice_the_effective_window
{
    assert(latch_step(tr[n]));
    let k = lemma_run_start(tr, n, n);
    k
}
"""
LATCH_ENSURES = [
    _FRAME_LATCH,
    'final(self).latch_wf()',
    C('C13.select.update_stall_latch.latched_only_with_backlog_or_pull_and_stale_proof',
      '''!old(self).spec_latched() && final(self).spec_latched() ==> old(self).proof_stale(now_ms, stale_ceiling_ms)
            && ((old(self).connected && old(self).in_flight_packets >= min_in_flight) || old(self).silence_pulled)'''),
    C('C13.select.update_stall_latch.never_latched_without_proof',
      'old(self).last_ack_or_rtt_sample_ms == 0 && !old(self).spec_latched() ==> !final(self).spec_latched()'),
    C('C13.select.update_stall_latch.rejoin_only_after_fresh_run_of_twice_the_window',
      '''old(self).spec_latched() && !final(self).spec_latched() ==> old(self).proof_fresh(now_ms, stale_ceiling_ms)
            && old(self).stall_recovery_since_ms != 0
            && sub_sat(now_ms, old(self).stall_recovery_since_ms) >= sat_mul_u64(old(self).spec_eff_stale(stale_ceiling_ms), 2)'''),
    C('C13.select.update_stall_latch.stale_proof_resets_the_run',
      'old(self).spec_latched() && !old(self).proof_fresh(now_ms, stale_ceiling_ms) ==> final(self).stall_recovery_since_ms == 0 && final(self).spec_latched()'),
    C('C13.select.update_stall_latch.run_start_is_a_fresh_decision',
      '''(final(self).stall_recovery_since_ms == 0 || final(self).stall_recovery_since_ms == old(self).stall_recovery_since_ms || final(self).stall_recovery_since_ms == now_ms)
            && (final(self).stall_recovery_since_ms != 0 ==> old(self).proof_fresh(now_ms, stale_ceiling_ms) && final(self).spec_latched())
            && (final(self).stall_recovery_since_ms != 0 && old(self).stall_recovery_since_ms != 0 ==> final(self).stall_recovery_since_ms == old(self).stall_recovery_since_ms)'''),
    C('C13.select.update_stall_latch.counts_rising_edges',
      'final(self).stall_gate_events == old(self).stall_gate_events + (if !old(self).spec_latched() && final(self).spec_latched() { 1int } else { 0int })'),
    '!old(self).spec_latched() && final(self).spec_latched() ==> final(self).stall_latched_since_ms == now_ms',
    'old(self).spec_latched() && final(self).spec_latched() ==> final(self).stall_latched_since_ms == old(self).stall_latched_since_ms',
    # the rejoin clauses under one name (trace lemma below)
    C('C13.select.update_stall_latch.contract_as_one_relation', 'latch_step(LatchDecision { pre: *old(self), post: *final(self), now: now_ms, min_in_flight: min_in_flight, ceiling: stale_ceiling_ms })'),
]

PULL_ENSURES = [
    C('C01+C12.select.update_silence_pull.touches_only_pull_fields',
      '''old(self).same_acct(final(self)) && final(self).same_cfg_cache(old(self))
            && final(self).stall_latched_since_ms == old(self).stall_latched_since_ms && final(self).stall_recovery_since_ms == old(self).stall_recovery_since_ms
            && final(self).stall_gate_events == old(self).stall_gate_events'''),
    C('C13.select.update_silence_pull.engages_only_when_loaded_and_silent',
      '!old(self).silence_pulled && final(self).silence_pulled ==> old(self).spec_briefly_silent(now_ms, min_in_flight, stale_ceiling_ms)'),
    C('C13.select.update_silence_pull.releases_only_when_heard_or_disconnected',
      'old(self).silence_pulled && !final(self).silence_pulled ==> old(self).heard_recently(now_ms, stale_ceiling_ms) || !old(self).connected'),
    C('C13.select.update_silence_pull.counts_rising_edges',
      'final(self).silence_pulls == old(self).silence_pulls + (if !old(self).silence_pulled && final(self).silence_pulled { 1int } else { 0int })'),
    C('C11.select.update_silence_pull.exact',
      '''final(self).silence_pulled == (old(self).spec_briefly_silent(now_ms, min_in_flight, stale_ceiling_ms)
            || (old(self).silence_pulled && !(old(self).heard_recently(now_ms, stale_ceiling_ms) || !old(self).connected)))'''),
]

# ------------------------------------------------------------------ resets (C02, C06, C08)
RESET_CORE_ENSURES = [
    'final(self).quality_cache == old(self).quality_cache',
    C('C06+C08.acct.reset_core_state.window_back_to_20000', 'final(self).window == 20000'),
    C('C02+C05+C08.acct.reset_core_state.nothing_in_flight', 'final(self).in_flight_packets == 0 && final(self).packet_log@.len() == 0 && final(self).highest_acked_seq == i32::MIN'),
    C('C07+C08.acct.reset_core_state.back_to_registering', '!final(self).connected && final(self).phase is Registering'),
    C('C13.acct.reset_core_state.clears_stall_state', '''final(self).last_ack_or_rtt_sample_ms == 0 && !final(self).stall_gated && final(self).stall_latched_since_ms == 0
            && final(self).stall_recovery_since_ms == 0 && !final(self).silence_pulled && final(self).stall_probe_counter == 0'''),
    C('C01+C04.acct.reset_core_state.queue_dropped', 'final(self).batch_sender.queue.len() == 0 && final(self).batch_sender.wf()'),
    'final(self).wf()',
    C('C19.acct.reset_core_state.keeps_the_identity_reloads_match_on', 'final(self).conn_id == old(self).conn_id && final(self).label == old(self).label && final(self).local_ip == old(self).local_ip'),
    'final(self).reconnection == old(self).reconnection', 'final(self).last_received == old(self).last_received',
    'final(self).congestion == old(self).congestion', 'final(self).stall_gate_events == old(self).stall_gate_events', 'final(self).silence_pulls == old(self).silence_pulls',
    'final(self).rtt == old(self).rtt', 'final(self).last_keepalive_sent == old(self).last_keepalive_sent', 'final(self).last_sent == old(self).last_sent',
]


def RESET_CORE_ENSURES_PUBLIC(who):
    return [
        C('C06+C08.acct.%s.window_back_to_20000' % who, 'final(self).window == 20000'),
        C('C02+C05+C08.acct.%s.nothing_in_flight' % who, 'final(self).in_flight_packets == 0 && final(self).packet_log@.len() == 0 && final(self).highest_acked_seq == i32::MIN'),
        C('C07+C08.acct.%s.back_to_registering' % who, '!final(self).connected && final(self).phase is Registering'),
        C('C13.acct.%s.clears_stall_state' % who, '''final(self).last_ack_or_rtt_sample_ms == 0 && !final(self).stall_gated && final(self).stall_latched_since_ms == 0
            && final(self).stall_recovery_since_ms == 0 && !final(self).silence_pulled'''),
        C('C01+C04.acct.%s.queue_dropped' % who, 'final(self).batch_sender.queue.len() == 0 && final(self).batch_sender.wf()'),
        'final(self).wf()', 'final(self).stall_probe_counter == 0', 'final(self).quality_cache == old(self).quality_cache',
        C('C19.acct.%s.keeps_the_identity_reloads_match_on' % who, 'final(self).conn_id == old(self).conn_id && final(self).label == old(self).label && final(self).local_ip == old(self).local_ip'),
    ]


# ------------------------------------------------------------------ ACK / NAK accounting (C02, C05, C06)
SRT_ACK_ENSURES = [
    C('C02+C05.acct.handle_srt_ack.count_equals_set', 'final(self).wf_count()'),
    C('C02.acct.handle_srt_ack.retires_everything_at_or_below_ack', '''old(self).above_hw() && ack > old(self).highest_acked_seq ==>
            (forall|k: i32| (#[trigger] final(self).packet_log@.contains_key(k)) <==> (old(self).packet_log@.contains_key(k) && k > ack))
            && (forall|k: i32| (#[trigger] final(self).packet_log@.contains_key(k)) ==> final(self).packet_log@[k] == old(self).packet_log@[k])
            && final(self).highest_acked_seq == ack'''),
    C('C02.acct.handle_srt_ack.stale_or_duplicate_ack_is_identity', 'ack <= old(self).highest_acked_seq ==> *final(self) == *old(self)'),
    C('C02.acct.handle_srt_ack.nothing_at_or_below_ack_remains', '''old(self).above_hw() ==> final(self).above_hw()
            && (ack != i32::MIN ==> forall|k: i32| (#[trigger] final(self).packet_log@.contains_key(k)) ==> k > ack)'''),
    C('C02.acct.handle_srt_ack.never_adds', 'forall|k: i32| (#[trigger] final(self).packet_log@.contains_key(k)) ==> old(self).packet_log@.contains_key(k)'),
    C('C02+C06+C09+C13.acct.handle_srt_ack.frame_delivery_proof_and_window_untouched', 'final(self).same_except_log_rtt(old(self))'),
]
SRT_ACK_LOOP_INV = [
    'seq_end == ack as i64', 'pre.highest_acked_seq as i64 + 1 <= seq_nx <= seq_end + 1', 'pre.highest_acked_seq != i32::MIN',
    'self.same_except_log_rtt(&pre)', 'self.rtt == pre.rtt', 'self.highest_acked_seq == ack',
    'self.packet_log@.len() <= pre.packet_log@.len()',
    C('C02.acct.handle_srt_ack.retires_everything_at_or_below_ack', '''forall|k: i32| (#[trigger] self.packet_log@.contains_key(k)) <==>
                (pre.packet_log@.contains_key(k) && !(pre.highest_acked_seq < k && (k as i64) < seq_nx))'''),
    C('C02.acct.handle_srt_ack.retires_everything_at_or_below_ack', 'forall|k: i32| (#[trigger] self.packet_log@.contains_key(k)) ==> self.packet_log@[k] == pre.packet_log@[k]'),
]
SRT_ACK_LOOP_PROOF = '''proof {
                    let before = self.packet_log@;
                    if before.contains_key(seq) { before.lemma_remove_key_len(seq); } else { assert(before.remove(seq) =~= before); }
                }'''
SRT_ACK_AFTER = '''proof {
            assert(forall|k: i32| (#[trigger] self.packet_log@.contains_key(k)) ==> pre.packet_log@.contains_key(k));
        }'''

NAK_ENSURES = [
    C('C02+C05.acct.handle_nak.found_iff_held', 'found == old(self).packet_log@.contains_key(seq)'),
    C('C02.acct.handle_nak.removes_exactly_seq', 'final(self).packet_log@ == old(self).packet_log@.remove(seq)'),
    C('C02+C05.acct.handle_nak.unknown_seq_changes_nothing', '!found ==> final(self).same_except_log(old(self)) && final(self).packet_log@ == old(self).packet_log@'),
    C('C02+C05.acct.handle_nak.count_equals_set', 'final(self).wf_count()'),
    C('C05+C06+C10.acct.handle_nak.charge_is_minus_100_floor_1000', 'found ==> final(self).window == (if old(self).window - 100 >= 1000 { old(self).window - 100 } else { 1000 })'),
    C('C05.acct.handle_nak.one_loss_count', 'found ==> final(self).congestion.nak_count == sat_i32(old(self).congestion.nak_count + 1)'),
    C('C05.acct.handle_nak.one_in_flight_slot', 'found ==> final(self).in_flight_packets == old(self).in_flight_packets - 1'),
    C('C06.acct.handle_nak.in_range_and_never_increases', 'win_ok(final(self).window) && final(self).window <= old(self).window'),
    C('C06.acct.handle_nak.fast_recovery_entered_only_at_2000', '!old(self).congestion.fast_recovery_mode && final(self).congestion.fast_recovery_mode ==> final(self).window <= 2000'),
    C('C06.acct.handle_nak.fast_recovery_not_left', 'old(self).congestion.fast_recovery_mode ==> final(self).congestion.fast_recovery_mode'),
    C('C02+C05.acct.handle_nak.frame', 'final(self).same_except_log_window_cc(old(self))'),
    'old(self).above_hw() ==> final(self).above_hw()',
]

SRTLA_ACK_ENSURES = [
    C('C02.acct.handle_srtla_ack_specific.found_iff_held', 'found == old(self).packet_log@.contains_key(seq)'),
    C('C02.acct.handle_srtla_ack_specific.removes_exactly_seq', 'final(self).packet_log@ == old(self).packet_log@.remove(seq)'),
    C('C02.acct.handle_srtla_ack_specific.unknown_seq_changes_nothing', '!found ==> final(self).same_except_log(old(self)) && final(self).packet_log@ == old(self).packet_log@'),
    C('C02+C05.acct.handle_srtla_ack_specific.count_equals_set', 'final(self).wf_count()'),
    C('C09+C13.acct.handle_srtla_ack_specific.delivery_proof_stamped_iff_earned',
      'final(self).last_ack_or_rtt_sample_ms == (if found { now_ms } else { old(self).last_ack_or_rtt_sample_ms })'),
    C('C06+C10.acct.handle_srtla_ack_specific.plus_29_only_when_inflight_exceeds_window',
      'found ==> final(self).window == spec_ack_window(old(self).window, final(self).in_flight_packets)'),
    C('C06.acct.handle_srtla_ack_specific.in_range_and_never_decreases', 'win_ok(final(self).window) && final(self).window >= old(self).window'),
    C('C06.acct.handle_srtla_ack_specific.fast_recovery_left_only_at_12000',
      'old(self).congestion.fast_recovery_mode && !final(self).congestion.fast_recovery_mode ==> final(self).window >= 12000'),
    C('C06.acct.handle_srtla_ack_specific.fast_recovery_not_entered', '!old(self).congestion.fast_recovery_mode ==> !final(self).congestion.fast_recovery_mode'),
    C('C10.acct.handle_srtla_ack_specific.classic_touches_no_cc_state', 'classic_mode ==> final(self).congestion == old(self).congestion'),
    C('C02.acct.handle_srtla_ack_specific.frame', 'final(self).same_except_log_window_cc_proof(old(self))'),
    'old(self).above_hw() ==> final(self).above_hw()',
]


# ------------------------------------------------------------------ selection (C03, C04, C10, C11, C12)
def WF_SEL(v):
    return 'forall|i: int| 0 <= i < %s.len() ==> 0 <= (#[trigger] %s[i]).window && %s[i].batch_sender.wf() && q_ok(%s[i].quality_cache.multiplier)' % (v, v, v, v)


CLASSIC_ENSURES = [
    C('C04.select.classic.result_is_eligible', 'r is Some ==> r.unwrap() < conns.len() && conns[r.unwrap() as int].eligible(now_ms)'),
    C('C10.select.classic.maximum_score_wins', '''r is Some ==> conns[r.unwrap() as int].spec_score() >= 0
            && (forall|j: int| 0 <= j < conns.len() && (#[trigger] conns[j]).eligible(now_ms) ==> conns[j].spec_score() <= conns[r.unwrap() as int].spec_score())'''),
    C('C10.select.classic.first_maximum_wins', '''r is Some ==>
            (forall|j: int| 0 <= j < r.unwrap() && (#[trigger] conns[j]).eligible(now_ms) ==> conns[j].spec_score() < conns[r.unwrap() as int].spec_score())'''),
    C('C01+C03.select.classic.returns_a_link_whenever_a_connected_eligible_link_exists',
      '(exists|i: int| 0 <= i < conns.len() && (#[trigger] conns[i]).eligible(now_ms) && conns[i].connected) ==> r is Some'),
    C('C03+C10.select.classic.none_only_if_no_scored_candidate', 'r is None ==> forall|j: int| 0 <= j < conns.len() && (#[trigger] conns[j]).eligible(now_ms) ==> conns[j].spec_score() < 0'),
]
CLASSIC_INV = [
    'i_nx <= conns.len()', WF_SEL('conns'), 'best_score >= -1', 'best_idx is None ==> best_score == -1',
    C('C04.select.classic.result_is_eligible', 'best_idx is Some ==> best_idx.unwrap() < i_nx && conns[best_idx.unwrap() as int].eligible(now_ms)'),
    C('C10.select.classic.maximum_score_wins', '''(best_idx is Some ==> conns[best_idx.unwrap() as int].spec_score() == best_score && best_score >= 0)
                && (forall|j: int| 0 <= j < i_nx && (#[trigger] conns[j]).eligible(now_ms) ==> conns[j].spec_score() <= best_score)'''),
    C('C10.select.classic.first_maximum_wins', 'best_idx is Some ==> forall|j: int| 0 <= j < best_idx.unwrap() && (#[trigger] conns[j]).eligible(now_ms) ==> conns[j].spec_score() < best_score'),
]

ENH_ENSURES = [
    'final(conns).len() == old(conns).len()',
    'forall|i: int| 0 <= i < old(conns).len() ==> q_ok((#[trigger] final(conns)[i]).quality_cache.multiplier)',
    C('C01+C03.select.enhanced.returns_a_link_whenever_a_connected_eligible_link_exists',
      '(exists|i: int| 0 <= i < old(conns).len() && (#[trigger] old(conns)[i]).eligible(current_time_ms) && old(conns)[i].connected) ==> r is Some'),
    C('C11.select.enhanced.capped_link_never_chosen_while_an_unconstrained_link_exists',
      'r is Some && any_unc(old(conns)@, current_time_ms) ==> !spec_cap_exceeded(&old(conns)[r.unwrap() as int])'),
    C('C04+C11.select.enhanced.result_is_a_connected_candidate', 'r is Some ==> r.unwrap() < old(conns).len() && enh_candidate(&old(conns)[r.unwrap() as int], current_time_ms, any_unc(old(conns)@, current_time_ms))'),
    C('C12.select.enhanced.writes_only_quality_cache', 'forall|i: int| 0 <= i < old(conns).len() ==> (#[trigger] final(conns)[i]).same_except_qc(&old(conns)[i])'),
    C('C04.select.enhanced.result_is_eligible', 'r is Some ==> r.unwrap() < final(conns).len() && final(conns)[r.unwrap() as int].eligible(current_time_ms)'),
]
ENH_INV = [
    'i_nx <= conns.len()', 'conns.len() == old(conns).len()', WF_SEL('old(conns)'),
    'any_unconstrained == any_unc(old(conns)@, current_time_ms)',
    'forall|j: int| 0 <= j < conns.len() ==> q_ok((#[trigger] conns[j]).quality_cache.multiplier)',
    'best_idx is None ==> best_score == -1.0f64',
    C('C01+C03.select.enhanced.returns_a_link_whenever_a_connected_eligible_link_exists',
      'forall|j: int| 0 <= j < i_nx && enh_candidate(&#[trigger] old(conns)[j], current_time_ms, any_unconstrained) ==> best_idx is Some'),
    C('C04+C11.select.enhanced.result_is_a_connected_candidate', 'best_idx is Some ==> best_idx.unwrap() < i_nx && enh_candidate(&old(conns)[best_idx.unwrap() as int], current_time_ms, any_unconstrained)'),
    C('C04+C11.select.enhanced.result_is_a_connected_candidate', 'current_score is Some ==> last_idx is Some && last_idx.unwrap() < i_nx && enh_candidate(&old(conns)[last_idx.unwrap() as int], current_time_ms, any_unconstrained)'),
    C('C11.select.enhanced.leaves_previous_link_only_if_skipped_or_beaten_by_10_percent',
      'current_score is None && last_idx is Some && last_idx.unwrap() < i_nx ==> !enh_candidate(&old(conns)[last_idx.unwrap() as int], current_time_ms, any_unconstrained)'),
    C('C12.select.enhanced.writes_only_quality_cache', 'forall|j: int| 0 <= j < i_nx ==> (#[trigger] conns[j]).same_except_qc(&old(conns)[j])'),
    'forall|j: int| i_nx <= j < conns.len() ==> #[trigger] conns[j] == old(conns)[j]',
    C('C04.select.enhanced.result_is_eligible', 'best_idx is Some ==> best_idx.unwrap() < i_nx && old(conns)[best_idx.unwrap() as int].eligible(current_time_ms)'),
    C('C04.select.enhanced.result_is_eligible', 'current_score is Some ==> last_idx is Some && last_idx.unwrap() < i_nx && old(conns)[last_idx.unwrap() as int].eligible(current_time_ms)'),
]
ENH_SPLICES = [
    ('let mut best_idx: Option<usize> = None;', 'let ghost mut qm: f64 = 1.0f64;', 'before'),
    ('let score = if ', 'proof { qm = 1.0f64; }', 'before'),
    ('let quality_mult = c.get_cached_quality_multiplier(current_time_ms);', 'proof { assert(q_ok(old(conns)[i as int].quality_cache.multiplier)); assert(q_ok(c.quality_cache.multiplier)); }', 'before'),
    ('let final_score = base * quality_mult * cap_mult * gate_mult;', 'proof { qm = quality_mult; }', 'before'),
    ('if Some(i) == last_idx {', '''proof {
            let co = &old(conns)[i as int];
            assert(enh_candidate(co, current_time_ms, any_unconstrained));  // @ob C04+C11.select.enhanced.result_is_a_connected_candidate
            assert(co.spec_score() >= 0);
            assert(score == spec_enh_score(co, any_unconstrained, enable_quality, qm));  // @ob C11.select.enhanced.score_is_base_x_phase_weight_x_quality_x_soft_cap_x_gate
            lemma_one_is_q_ok();
            assert(spec_phase_weight(co.phase) == 0.8f64 || spec_phase_weight(co.phase) == 1.0f64);
            assert(q_ok(qm));
            assert(cap_ok(cap_mult));
            assert(gate_mult == 0.02f64 || gate_mult == 1.0f64);
            lemma_score_gt_neg1(co.spec_score() as i32, spec_phase_weight(co.phase), qm, cap_mult, gate_mult);
            assert(fgt(score, -1.0f64));  // @ob C01+C03.select.enhanced.returns_a_link_whenever_a_connected_eligible_link_exists
        }''', 'before'),
    ('    best_idx\n}', '''    proof {
        // C11 hysteresis: the previous link is left only if it was skipped or the winner reaches 1.10 x its score
        assert(last_idx is Some && best_idx != last_idx && last_idx.unwrap() < conns.len() ==>
            (current_score is None ==> !enh_candidate(&old(conns)[last_idx.unwrap() as int], current_time_ms, any_unconstrained))
            && (current_score is Some ==> !flt(best_score, current_score.unwrap().mul_spec(1.10f64))));  // @ob C11.select.enhanced.leaves_previous_link_only_if_skipped_or_beaten_by_10_percent
    }
    best_idx
}''', 'replace'),
]


def ANY_UNCONSTRAINED_HELPER(u):
    import re
    from gen import read_src, LostAnchor
    import rules
    from collections import Counter
    src = read_src('crates/srtla-core/src/selection/enhanced.rs')
    m = re.search(r'let any_unconstrained = conns\.iter\(\)\.any\(\|c\| \{(.*?)\}\);', src, re.S)
    if not m:
        raise LostAnchor('enhanced: any_unconstrained closure')
    pred = rules.clean_source(m.group(1), Counter()).strip()
    return '''
pub open spec fn spec_unconstrained(c: &SrtlaConnection, now: u64) -> bool {
    c.connected && !c.spec_timed_out(now) && c.spec_sched() && !c.weak && !c.loss_degraded && !c.stall_gated && !spec_cap_exceeded(c)
}
pub open spec fn any_unc(conns: Seq<SrtlaConnection>, now: u64) -> bool { exists|j: int| 0 <= j < conns.len() && spec_unconstrained(&#[trigger] conns[j], now) }
// a link the enhanced loop actually scores: eligible, connected and not hard-skipped by the in-flight cap
pub open spec fn enh_candidate(c: &SrtlaConnection, now: u64, unc: bool) -> bool { c.eligible(now) && c.connected && !(unc && spec_cap_exceeded(c)) }
pub open spec fn spec_gate_mult(c: &SrtlaConnection, unc: bool) -> f64 { if unc && (c.weak || c.loss_degraded) { 0.02f64 } else { 1.0f64 } }
pub open spec fn spec_enh_score(c: &SrtlaConnection, unc: bool, enable_quality: bool, q: f64) -> f64 {
    let base = i32_to_f64(c.spec_score() as i32).mul_spec(spec_phase_weight(c.phase));
    if !enable_quality { base.mul_spec(spec_soft_cap(c)).mul_spec(spec_gate_mult(c, unc)) }
    else { base.mul_spec(q).mul_spec(spec_soft_cap(c)).mul_spec(spec_gate_mult(c, unc)) }
}
// R12: helper generated from `conns.iter().any(|c| {..})`; the predicate text is copied from the source
pub fn any_unconstrained_helper(conns: &[SrtlaConnection], current_time_ms: u64) -> (r: bool)
    ensures
        r == (exists|j: int| 0 <= j < conns.len() && spec_unconstrained(&#[trigger] conns[j], current_time_ms)),  // @ob C01+C03+C11.select.enhanced.any_unconstrained_predicate
{
    let mut c_nx: usize = 0;
    while c_nx < conns.len()
        invariant c_nx <= conns.len(),
            forall|j: int| 0 <= j < c_nx ==> !spec_unconstrained(&#[trigger] conns[j], current_time_ms),  // @ob C01+C03+C11.select.enhanced.any_unconstrained_predicate
        decreases conns.len() - c_nx,
    {
        let c = &conns[c_nx]; c_nx += 1;
        if %s { proof {
            assert(spec_unconstrained(&conns[c_nx - 1], current_time_ms));  // @ob C01+C03+C11.select.enhanced.any_unconstrained_predicate
        } return true; }
    }
    false
}
''' % pred


def GATE_HELPER(u):
    import re
    from gen import read_src, LostAnchor
    import rules
    from collections import Counter
    src = read_src('crates/srtla-core/src/selection/mod.rs')
    m = re.search(r'let any_healthy = conns\.iter\(\)\.any\(\|c\| \{(.*?)\}\);', src, re.S)
    if not m:
        raise LostAnchor('apply_stall_gate: any_healthy closure')
    pred = rules.clean_source(m.group(1), Counter()).strip()
    return '''
// R12: helper generated from `conns.iter().any(|c| {..})` in apply_stall_gate; predicate text copied from the source
pub fn any_healthy_helper(conns: &[SrtlaConnection], current_time_ms: u64) -> (r: bool)
    ensures
        r == exists_healthy(conns@, current_time_ms),  // @ob C03.select.apply_stall_gate.any_healthy_predicate
{
    let mut c_nx: usize = 0;
    while c_nx < conns.len()
        invariant c_nx <= conns.len(),
            forall|j: int| 0 <= j < c_nx ==> !#[trigger] conns[j].healthy(current_time_ms),  // @ob C03.select.apply_stall_gate.any_healthy_predicate
        decreases conns.len() - c_nx,
    {
        let c = &conns[c_nx]; c_nx += 1;
        if %s { proof {
            assert(conns[c_nx - 1].healthy(current_time_ms));  // @ob C03.select.apply_stall_gate.any_healthy_predicate
        } return true; }
    }
    false
}
''' % pred


CNT_OK = '(#[trigger] %s[i]).stall_gate_events < 0x7fff_ffff_ffff_ffff && %s[i].silence_pulls < 0x7fff_ffff_ffff_ffff && %s[i].latch_wf()'
# Named predicates over ghost constants: inside a loop the solver then carries ONE atom instead of a quantifier it has to
# re-prove at the end of every loop body (that re-proof was the unstable part of this function).
GATE_PREDS = r'''
pub open spec fn gate_pre_ok(o: Seq<SrtlaConnection>) -> bool {
    forall|i: int| 0 <= i < o.len() ==> (#[trigger] o[i]).stall_gate_events < 0x7fff_ffff_ffff_ffff && o[i].silence_pulls < 0x7fff_ffff_ffff_ffff && o[i].latch_wf()
}
pub open spec fn gate_mid_ok(o: Seq<SrtlaConnection>, m: Seq<SrtlaConnection>, timeout: u64) -> bool {
    o.len() == m.len() && forall|j: int| 0 <= j < m.len() ==> #[trigger] o[j].same_acct(&m[j]) && m[j].conn_timeout_ms == timeout && m[j].quality_cache == o[j].quality_cache && m[j].latch_wf()
}
pub open spec fn exists_healthy(s: Seq<SrtlaConnection>, now: u64) -> bool { exists|j: int| 0 <= j < s.len() && #[trigger] s[j].healthy(now) }
'''
GATE_REQUIRES = ['gate_pre_ok(old(conns)@)', 'current_time_ms > 0']
GATE_ENSURES = [
    'final(conns).len() == old(conns).len()',
    'forall|i: int| 0 <= i < old(conns).len() ==> (#[trigger] final(conns)[i]).latch_wf()',
    C('C12.select.apply_stall_gate.accounting_untouched', '''forall|i: int| 0 <= i < old(conns).len() ==> #[trigger] old(conns)[i].same_acct(&final(conns)[i])
            && final(conns)[i].quality_cache == old(conns)[i].quality_cache'''),
    C('C04+C08+C12.select.apply_stall_gate.every_link_carries_the_configured_timeout', 'forall|i: int| 0 <= i < old(conns).len() ==> (#[trigger] final(conns)[i]).conn_timeout_ms == config.conn_timeout_ms'),
    C('C10+C12.select.apply_stall_gate.guard_off_clears_every_flag_and_latch', '''!config.stall_deselect ==> forall|i: int| 0 <= i < old(conns).len() ==> !(#[trigger] final(conns)[i]).stall_gated
            && !final(conns)[i].silence_pulled && final(conns)[i].stall_latched_since_ms == 0 && final(conns)[i].stall_recovery_since_ms == 0'''),
    C('C01+C03.select.apply_stall_gate.never_gates_the_last_usable_link', '''(exists|i: int| 0 <= i < final(conns).len() && (#[trigger] final(conns)[i]).usable(current_time_ms))
            ==> exists|j: int| 0 <= j < final(conns).len() && (#[trigger] final(conns)[j]).usable(current_time_ms) && !final(conns)[j].stall_gated'''),
    C('C03+C04.select.apply_stall_gate.gated_only_while_a_healthy_link_exists', '''config.stall_deselect ==> forall|i: int| 0 <= i < old(conns).len() ==>
            (#[trigger] final(conns)[i]).stall_gated == (exists_healthy(final(conns)@, current_time_ms) && (final(conns)[i].spec_latched() || final(conns)[i].silence_pulled))'''),
]
_GB = ['c_nx <= conns.len()', 'conns.len() == c_entry.len()', 'forall|j: int| c_nx <= j < conns.len() ==> #[trigger] conns[j] == c_entry[j]']
_G1 = _GB + [
    C('C01+C12.select.apply_stall_gate.timeout_pass_writes_only_the_timeout', 'forall|j: int| 0 <= j < c_nx ==> (#[trigger] conns[j]).same_except_timeout(&c_entry[j])'),
    C('C04+C08+C12.select.apply_stall_gate.every_link_carries_the_configured_timeout', 'forall|j: int| 0 <= j < c_nx ==> (#[trigger] conns[j]).conn_timeout_ms == config.conn_timeout_ms')]
_G2 = _GB + [
    C('C01+C12.select.apply_stall_gate.guard_off_pass_writes_only_stall_state', 'forall|j: int| 0 <= j < c_nx ==> (#[trigger] conns[j]).same_except_stall_flags(&c_entry[j])'),
    C('C10+C12.select.apply_stall_gate.guard_off_clears_every_flag_and_latch', '''forall|j: int| 0 <= j < c_nx ==>
                !(#[trigger] conns[j]).stall_gated && !conns[j].silence_pulled && conns[j].stall_latched_since_ms == 0 && conns[j].stall_recovery_since_ms == 0''')]
_G3 = _GB + [
    C('C12.select.apply_stall_gate.accounting_untouched', '''forall|j: int| 0 <= j < c_nx ==> (#[trigger] conns[j]).latch_wf() && c_entry[j].same_acct(&conns[j])
                && conns[j].conn_timeout_ms == c_entry[j].conn_timeout_ms && conns[j].quality_cache == c_entry[j].quality_cache''')]
_G4 = _GB + [
    C('C01+C12.select.apply_stall_gate.final_pass_writes_only_the_gate_flag', 'forall|j: int| 0 <= j < c_nx ==> (#[trigger] conns[j]).same_except_gated(&c_entry[j])'),
    C('C03+C04.select.apply_stall_gate.gated_only_while_a_healthy_link_exists',
      'forall|j: int| 0 <= j < c_nx ==> (#[trigger] conns[j]).stall_gated == (any_healthy && (c_entry[j].spec_latched() || c_entry[j].silence_pulled))')]
# loops addressed by a statement they must contain (robust against added / merged loops)
GATE_LOOPS = {'conn_timeout_ms = config.conn_timeout_ms': _G1, 'clear_stall_latch()': _G2, 'update_stall_latch(': _G3, 'any_healthy &&': _G4}
# `@exit` marks an assertion that restates a postcondition AT AN EXIT (trusted like the postcondition itself even when the function was restructured)
_EXIT_ACCT = '''assert forall|i: int| 0 <= i < conns.len() implies #[trigger] old(conns)[i].same_acct(&conns[i]) && conns[i].quality_cache == old(conns)[i].quality_cache by {  // @ob C12.select.apply_stall_gate.accounting_untouched @exit
                %s
            }
            assert forall|i: int| 0 <= i < conns.len() implies (#[trigger] conns[i]).conn_timeout_ms == config.conn_timeout_ms by {  // @ob C04+C08+C12.select.apply_stall_gate.every_link_carries_the_configured_timeout @exit
                %s
            }'''
GATE_SPLICES = [
    # state after the timeout pass, named once (ghost): the later passes are related to it through their entry snapshots
    ('if !config.stall_deselect {', 'let ghost t1 = conns@;', 'before', 'opt'),
    ('return;', '''proof {
            %s
            assert forall|i: int| 0 <= i < conns.len() implies (#[trigger] conns[i]).latch_wf() by { }
            if exists|i: int| 0 <= i < conns.len() && (#[trigger] conns[i]).usable(current_time_ms) {
                let w = choose|i: int| 0 <= i < conns.len() && (#[trigger] conns[i]).usable(current_time_ms);
                assert(!conns[w].stall_gated);
            }
        }''' % (_EXIT_ACCT % ('assert(conns[i].same_except_stall_flags(&c_entry[i]));', 'assert(conns[i].same_except_stall_flags(&c_entry[i]));')), 'before', 'first'),
    ('c.update_silence_pull(current_time_ms, min_in_flight, stale_ceiling_ms);', 'let ghost c0 = *c;\n        proof { assert(c0 == c_entry[c_ix as int]); assert(c0.stall_gate_events < 0x7fff_ffff_ffff_ffff && c0.silence_pulls < 0x7fff_ffff_ffff_ffff && c0.latch_wf()); }', 'before'),
    ('c.update_stall_latch(current_time_ms, min_in_flight, stale_ceiling_ms);', 'let ghost c1 = *c;', 'before'),
    ('c.update_stall_latch(current_time_ms, min_in_flight, stale_ceiling_ms);', '''let ghost cfin = *c;
        proof {
            assert(c0.same_acct(&c1)); assert(c1.same_acct(&cfin)); assert(c0.same_acct(&cfin));
            assert(cfin.conn_timeout_ms == c0.conn_timeout_ms && cfin.quality_cache == c0.quality_cache && cfin.latch_wf());
            assert(conns[c_ix as int] == cfin);
            assert forall|j: int| 0 <= j < c_nx implies (#[trigger] conns[j]).latch_wf() && c_entry[j].same_acct(&conns[j])
                && conns[j].conn_timeout_ms == c_entry[j].conn_timeout_ms && conns[j].quality_cache == c_entry[j].quality_cache by {
                if j != c_ix { assert(conns[j] == c_all[j]); }
            }
            assert forall|j: int| c_nx <= j < conns.len() implies #[trigger] conns[j] == c_entry[j] by { assert(conns[j] == c_all[j]); }
        }''', 'after'),
    ('let any_healthy = any_healthy_helper(conns, current_time_ms);', '''let ghost pre4 = conns@;
    proof { assert forall|j: int| 0 <= j < pre4.len() implies (#[trigger] pre4[j]).latch_wf() by { assert(conns[j].latch_wf()); } }''', 'after'),
    ('@END', '''proof {
        assert(c_entry == pre4);
        assert forall|j: int| 0 <= j < conns.len() implies #[trigger] conns[j].healthy(current_time_ms) == pre4[j].healthy(current_time_ms) by {
            assert(conns[j].same_except_gated(&pre4[j]));
        }
        let ex_new = exists_healthy(conns@, current_time_ms);
        let ex_old = exists_healthy(pre4, current_time_ms);
        if ex_new { let j = choose|j: int| 0 <= j < conns.len() && #[trigger] conns[j].healthy(current_time_ms); assert(pre4[j].healthy(current_time_ms)); }
        if ex_old { let j = choose|j: int| 0 <= j < pre4.len() && #[trigger] pre4[j].healthy(current_time_ms); assert(conns[j].healthy(current_time_ms)); }
        assert(ex_new == ex_old);
        %s
        assert(any_healthy == ex_old);
        assert forall|i: int| 0 <= i < conns.len() implies (#[trigger] conns[i]).latch_wf()
            && conns[i].stall_gated == (ex_new && (conns[i].spec_latched() || conns[i].silence_pulled)) by {
            assert(conns[i].same_except_gated(&pre4[i]));
            assert(pre4[i].latch_wf());
            assert(conns[i].stall_gated == (any_healthy && (pre4[i].spec_latched() || pre4[i].silence_pulled)));
        }
        // C03: the gate never excludes the last usable link
        if exists|i: int| 0 <= i < conns.len() && (#[trigger] conns[i]).usable(current_time_ms) {
            if ex_new {
                let h = choose|j: int| 0 <= j < conns.len() && #[trigger] conns[j].healthy(current_time_ms);
                assert(conns[h].usable(current_time_ms) && !conns[h].stall_gated);
            } else {
                let w = choose|i: int| 0 <= i < conns.len() && (#[trigger] conns[i]).usable(current_time_ms);
                assert(!conns[w].stall_gated);
            }
        }
    }''' % (_EXIT_ACCT % ('assert(conns[i].same_except_gated(&pre4[i])); assert(t1[i].same_acct(&pre4[i])); assert(t1[i].same_except_timeout(&old(conns)[i]));',
                         'assert(conns[i].same_except_gated(&pre4[i])); assert(pre4[i].conn_timeout_ms == t1[i].conn_timeout_ms);')), 'before'),
]

IDX_REQUIRES = ['gate_pre_ok(old(conns)@)', WF_SEL('old(conns)'),
                'current_time_ms > 0']
IDX_ENSURES = [
    'final(conns).len() == old(conns).len()',
    'forall|i: int| 0 <= i < old(conns).len() ==> q_ok((#[trigger] final(conns)[i]).quality_cache.multiplier)',
    C('C01+C03.select.select_connection_idx.no_blackout_while_a_usable_uplink_exists',
      '(exists|i: int| 0 <= i < final(conns).len() && (#[trigger] final(conns)[i]).usable(current_time_ms)) ==> r is Some'),
    'forall|i: int| 0 <= i < old(conns).len() ==> (#[trigger] final(conns)[i]).latch_wf()',
    C('C12.select.select_connection_idx.decision_never_changes_liveness_or_accounting', 'forall|i: int| 0 <= i < old(conns).len() ==> #[trigger] old(conns)[i].same_acct(&final(conns)[i])'),
    C('C04.select.select_connection_idx.result_is_eligible', 'r is Some ==> r.unwrap() < final(conns).len() && final(conns)[r.unwrap() as int].eligible(current_time_ms)'),
    C('C10+C12.select.select_connection_idx.guard_off_clears_every_flag_and_latch', '''!config.stall_deselect ==> forall|i: int| 0 <= i < old(conns).len() ==> !(#[trigger] final(conns)[i]).stall_gated
            && !final(conns)[i].silence_pulled && final(conns)[i].stall_latched_since_ms == 0 && final(conns)[i].stall_recovery_since_ms == 0'''),
]
def IDX_ANCHOR_REWRITE(text):
    """wrap the `last_idx` ARGUMENT of the enhanced selector call in a block that asserts it still denotes the caller's previous choice
    (out-of-range anchors are ignored by the selector, so only the in-range part matters)."""
    import re as _re
    from rustlex import match_bracket as _mb
    m = _re.search(r'enhanced::select_connection\(', text)
    if not m:
        return text
    op = m.end() - 1
    cl = _mb(text, op, '(', ')')
    args = []
    d = 0
    a = op + 1
    for k in range(op + 1, cl):
        c = text[k]
        if c in '([{':
            d += 1
        elif c in ')]}':
            d -= 1
        elif c == ',' and d == 0:
            args.append((a, k))
            a = k + 1
    args.append((a, cl))
    if len(args) < 2:
        return text
    a0, a1 = args[1]
    arg = text[a0:a1].strip()
    new = ('({ let anchor_arg = %s; proof { assert(anchor_in_range(anchor_arg, conns.len() as int) == anchor_in_range(anchor_entry, conns.len() as int)); }'
           '  // @ob C11.select.select_connection_idx.the_previous_choice_reaches_the_enhanced_selector_unchanged\n anchor_arg })' % arg)
    return text[:a0] + ' ' + new + text[a1:]


IDX_SPLICES = [
    ('@BEGIN', '    let ghost anchor_entry = last_idx;', 'after'),
    ('match config.mode {', '''proof {
        assert forall|i: int| 0 <= i < conns.len() implies 0 <= (#[trigger] conns[i]).window && conns[i].batch_sender.wf() && q_ok(conns[i].quality_cache.multiplier) by { assert(old(conns)[i].same_acct(&conns[i])); }
    }
    let ghost gated = conns@;''', 'before'),
    ('match config.mode {', 'let res = match config.mode {', 'replace'),
    ('@END', ''';
    proof {
        assert forall|i: int| 0 <= i < conns.len() implies #[trigger] old(conns)[i].same_acct(&conns[i]) by {
            assert(old(conns)[i].same_acct(&gated[i]));
            assert(conns[i] == gated[i] || conns[i].same_except_qc(&gated[i]));
        }
        assert forall|i: int| 0 <= i < conns.len() implies (#[trigger] conns[i]).latch_wf() by {
            assert(gated[i].latch_wf());
            assert(conns[i] == gated[i] || conns[i].same_except_qc(&gated[i]));
        }
        // C03: usable after selection <=> usable on the gated snapshot; the gate left a usable ungated link
        if exists|i: int| 0 <= i < conns.len() && (#[trigger] conns[i]).usable(current_time_ms) {
            let w = choose|i: int| 0 <= i < conns.len() && (#[trigger] conns[i]).usable(current_time_ms);
            assert(conns[w] == gated[w] || conns[w].same_except_qc(&gated[w]));
            assert(gated[w].usable(current_time_ms));
            let u = choose|j: int| 0 <= j < gated.len() && (#[trigger] gated[j]).usable(current_time_ms) && !gated[j].stall_gated;
            assert(gated[u].eligible(current_time_ms) && gated[u].connected);
            assert(res is Some);
        }
    }
    res''', 'before'),
]

BESTQ_ENSURES = [
    C('C03+C04+C13.select.select_best_quality_idx.never_a_registering_disconnected_or_stall_gated_link',
      'r is Some ==> r.unwrap() < conns.len() && conns[r.unwrap() as int].connected && conns[r.unwrap() as int].spec_sched() && !conns[r.unwrap() as int].stall_gated'),
]
BESTQ_INV = ['i_nx <= conns.len()',
             C('C03+C04+C13.select.select_best_quality_idx.never_a_registering_disconnected_or_stall_gated_link',
               'best_idx is Some ==> best_idx.unwrap() < i_nx && conns[best_idx.unwrap() as int].connected && conns[best_idx.unwrap() as int].spec_sched() && !conns[best_idx.unwrap() as int].stall_gated')]
