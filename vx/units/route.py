"""Unit `route`: the client->uplink path of the shell (C01, C04, C05, C10):
handle_srt_packet, forward_via_connection, send_stall_probes, send_connection_batch, flush_all_batches
(src/sender/packet_handler.rs) and send_all_datagrams (src/net/mod.rs).  R15 applies."""
import re

from gen import C, read_src, LostAnchor
import rules
from collections import Counter
import world
import shell

PH = 'src/sender/packet_handler.rs'
NM = 'src/net/mod.rs'

STUBS = r'''
// ---------- route: I/O stubs ----------
impl BatchUdpSocket {
    // sendmmsg: may accept fewer datagrams than offered, never more
    #[verifier::external_body]
    pub fn send_batch(&self, bufs: &[&[u8]]) -> (r: Result<usize, IoError>)
        ensures r is Ok ==> r->Ok_0 <= bufs.len(),
    { unimplemented!() }
}
#[verifier::external_body] pub fn io_error_write_zero() -> IoError { unimplemented!() }
// `batch.iter().map(|(data, _, _)| data.as_slice()).collect()`: the byte slices of the drained packets, in order
#[verifier::external_body]
pub fn batch_slices(batch: &Vec<(Vec<u8>, Option<u32>, u64)>) -> (r: Vec<&[u8]>)
    ensures r.len() == batch.len(), forall|i: int| 0 <= i < r.len() ==> (#[trigger] r[i])@ == batch[i].0@,
{ unimplemented!() }
// pre-registration forwarding (before the session is established; outside C04's scope): `.enumerate().find(|(_, c)| ..)`
#[verifier::external_body]
pub fn select_pre_registration_connection(connections: &[SrtlaConnection], last_selected_idx: Option<usize>, now_ms: u64) -> (r: Option<usize>)
    ensures r is Some ==> r.unwrap() < connections.len(),
{ unimplemented!() }

pub open spec fn slice_views(v: Seq<&[u8]>) -> Seq<Seq<u8>> { v.map(|i: int, x: &[u8]| x@) }

// ---------- route: spec layer ----------
pub open spec fn route_link_wf(c: &SrtlaConnection) -> bool {
    c.wf_count() && c.batch_sender.wf() && c.stall_probe_counter < 100 && 0 <= c.window && c.latch_wf() && q_ok(c.quality_cache.multiplier)
}
// machine arithmetic (assumption, not inductive): packet log + queue stay far below i32::MAX entries
pub open spec fn size_ok(c: &SrtlaConnection) -> bool { c.packet_log@.len() + c.batch_sender.queue.len() < 0x7ffe_0000 }
pub open spec fn sizes_ok(conns: Seq<SrtlaConnection>) -> bool { forall|i: int| 0 <= i < conns.len() ==> size_ok(&#[trigger] conns[i]) }
pub open spec fn send_link_wf(c: &SrtlaConnection) -> bool { route_link_wf(c) && c.packet_log@.len() + c.batch_sender.queue.len() < 0x7fff_0000 }
// machine arithmetic: the two lifetime event counters stay below 2^63 (assumption, not inductive)
pub open spec fn counters_ok(conns: Seq<SrtlaConnection>) -> bool {
    forall|i: int| 0 <= i < conns.len() ==> (#[trigger] conns[i]).stall_gate_events < 0x7fff_ffff_ffff_ffff && conns[i].silence_pulls < 0x7fff_ffff_ffff_ffff
}
pub proof fn lemma_route_wf_gives_select_pre(conns: Seq<SrtlaConnection>)
    requires route_wf(conns), counters_ok(conns),
    ensures gate_pre_ok(conns), forall|i: int| 0 <= i < conns.len() ==> 0 <= (#[trigger] conns[i]).window && conns[i].batch_sender.wf() && q_ok(conns[i].quality_cache.multiplier),
{
    assert forall|i: int| 0 <= i < conns.len() implies (#[trigger] conns[i]).stall_gate_events < 0x7fff_ffff_ffff_ffff && conns[i].silence_pulls < 0x7fff_ffff_ffff_ffff && conns[i].latch_wf() by { assert(route_link_wf(&conns[i])); }
    assert forall|i: int| 0 <= i < conns.len() implies 0 <= (#[trigger] conns[i]).window && conns[i].batch_sender.wf() && q_ok(conns[i].quality_cache.multiplier) by { assert(route_link_wf(&conns[i])); }
}
pub open spec fn route_wf(conns: Seq<SrtlaConnection>) -> bool { forall|i: int| 0 <= i < conns.len() ==> route_link_wf(&#[trigger] conns[i]) }

// the datagram was appended to this link's queue, paired with its sequence number and time, nothing else touched
pub open spec fn queued_on(o: &SrtlaConnection, n: &SrtlaConnection, pkt: Seq<u8>, seq: Option<u32>, t: u64) -> bool {
    &&& n.batch_sender.queue.len() == o.batch_sender.queue.len() + 1
    &&& (forall|i: int| 0 <= i < o.batch_sender.queue.len() ==> #[trigger] n.batch_sender.view_at(i) == o.batch_sender.view_at(i))
    &&& n.batch_sender.view_at(o.batch_sender.queue.len() as int) == (pkt, seq, t)
    &&& n.same_except_batch_bitrate(o)
}
// ... or the queue reached its regime threshold and was handed to the socket (emptied); on a send error the link was reset
pub open spec fn flushed(n: &SrtlaConnection) -> bool { n.batch_sender.queue.len() == 0 }
'''


def any_helper(name, src_rel, pat, pred_fix=lambda p: p, extra_param='', spec='true'):
    src = read_src(src_rel)
    m = re.search(pat, src, re.S)
    if not m:
        raise LostAnchor('%s: closure' % name)
    pred = pred_fix(rules.clean_source(m.group(1), Counter()).strip())
    return pred


def _ghost_wire_at_send_batch(text):
    """`match socket.send_batch(&bufs[LO..HI]) {`  ->  bind the result, record in the ghost wire log exactly the datagrams the
    socket reports as accepted (the first n of the offered slice), then match on the bound result.  The ghost update is derived from
    the call's own arguments and result, not from how the code afterwards advances its cursor."""
    m = re.search(r'match socket\.send_batch\(&bufs\[(.+?)\.\.(.+?)\]\) \{', text)
    if not m:
        return text
    lo, hi = m.group(1).strip(), m.group(2).strip()
    new = ('let sb_res = socket.send_batch(&bufs[%s..%s]);\n        proof { if sb_res is Ok { wire = wire + slice_views(bufs@).subrange((%s) as int, (%s) + sb_res->Ok_0); } }\n        match sb_res {'
           % (lo, hi, lo, lo))
    return text[:m.start()] + new + text[m.end():]


def build():
    u = world.build('route', active=['route'])
    # the stub of select_pre_registration_connection assumes an in-range result from an immutable slice: audited
    u.audit(PH, 'select_pre_registration_connection', sig=['connections: &[SrtlaConnection]', '-> Option<usize>'],
            require=[r'let Some\(conn\) = connections \.get\(idx\)|let Some\(conn\) = connections\.get\(idx\)', r'\.enumerate\(\) \.find\(|\.enumerate\(\)\.find\('],
            forbid=[r'Some\(\s*\w+\s*[-+*]'])
    u.use('use std::net::SocketAddr;')
    u.add(u.item('crates/srtla-core/src/connection/incoming.rs', 'struct', 'SrtlaIncoming'))
    u.add(shell.STUBS)
    shell.add_seqtrack(u)
    u.add(STUBS)

    # ---------------- send_all_datagrams ----------------
    u.add(u.fn(NM, 'send_all_datagrams', sub='route', ret='r', erase_async=True, props=(),
               post_rewrite=[('std::io::Result<()>', 'Result<(), IoError>', 1), ('let mut sent = 0;', 'let mut sent: usize = 0;', 1),
                             (re.compile(r'std::io::Error::new\(\s*std::io::ErrorKind::WriteZero,\s*"[^"]*",?\s*\)'), 'io_error_write_zero()', 1),
                             (_ghost_wire_at_send_batch, None, 1)],
               loops={0: dict(inv=['sent <= total', 'total == bufs.len()',
                                   C('C01.route.send_all_datagrams.every_datagram_handed_to_the_socket_once_in_order', 'wire =~= slice_views(bufs@).subrange(0, sent as int)')],
                              dec='total - sent')},
               splices=[('let total = bufs.len();', 'let ghost mut wire: Seq<Seq<u8>> = Seq::empty();', 'after'),
                        ('    Ok(())\n}', '''    proof {
        assert(wire =~= slice_views(bufs@));  // @ob C01.route.send_all_datagrams.every_datagram_handed_to_the_socket_once_in_order
    }
    Ok(())
}''', 'replace')]))

    # ---------------- send_connection_batch ----------------
    u.add(u.fn(PH, 'send_connection_batch', sub='route', ret='r', erase_async=True, props=(),
               post_rewrite=[('std::io::Result<()>', 'Result<(), IoError>', 1), 
                             
                             (re.compile(r'let bufs: Vec<&\[u8\]> = batch\.iter\(\)\.map\(\|\(data, _, _\)\| data\.as_slice\(\)\)\.collect\(\);'), 'let bufs: Vec<&[u8]> = batch_slices(&batch);', 1)],
               requires=['send_link_wf(old(conn))'],
               ensures=[
                   C('C01.route.send_connection_batch.queue_fully_drained', 'final(conn).batch_sender.queue.len() == 0'),
                   C('C01+C12.route.send_connection_batch.frame', 'final(conn).same_except_take_batch(old(conn))'),
                   'route_link_wf(final(conn))',
                   C('C02.route.send_connection_batch.registers_exactly_the_tracked_seqs', '''forall|k: i32| #[trigger] final(conn).packet_log@.contains_key(k) <==>
            (old(conn).packet_log@.contains_key(k) || exists|i: int| 0 <= i < old(conn).batch_sender.queue.len() && (#[trigger] old(conn).batch_sender.sequences[i]) is Some && old(conn).batch_sender.sequences[i].unwrap() as i32 == k)'''),
               ],
               splices=[('send_all_datagrams(socket, &bufs)', '''proof {
        assert(bufs.len() == old(conn).batch_sender.queue.len()
            && forall|i: int| 0 <= i < bufs.len() ==> (#[trigger] bufs[i])@ == old(conn).batch_sender.queue[i]@);  // @ob C01.route.send_connection_batch.flushed_bytes_are_the_queued_bytes_in_order
    }''', 'before')]))

    # ---------------- forward_via_connection ----------------
    SEL = 'sel_idx as int'
    u.add(u.fn(PH, 'forward_via_connection', sub='route', erase_async=True, props=(),
               post_rewrite=[('&io.socket', 'io.sock()', 1)],
               requires=['route_wf(old(connections)@)', 'sel_idx < old(connections).len() ==> size_ok(&old(connections)[sel_idx as int])'],
               ensures=[
                   'final(connections).len() == old(connections).len()', 'route_wf(final(connections)@)',
                   C('C01.route.forward.only_the_selected_link_is_touched', 'forall|j: int| 0 <= j < old(connections).len() && j != sel_idx ==> #[trigger] final(connections)[j] == old(connections)[j]'),
                   C('C01.route.forward.datagram_queued_unchanged_on_the_selected_link_or_batch_flushed', '''sel_idx < old(connections).len() ==>
            queued_on(&old(connections)[%s], &final(connections)[%s], pkt@, seq, packet_time_ms) || flushed(&final(connections)[%s])''' % (SEL, SEL, SEL)),
                   C('C01.route.forward.held_for_at_most_one_batch_of_32', '''sel_idx < old(connections).len() && conn_io@.contains_key(old(connections)[%s].conn_id) ==>
            final(connections)[%s].batch_sender.queue.len() < 32''' % (SEL, SEL)),
                   C('C05+C10.route.forward.tracker_records_the_carrier_of_the_unique_copy', '''sel_idx < old(connections).len() ==> (match seq {
                Some(s) => final(seq_tracker).entries@[seq_slot(s)].conn_id == old(connections)[%s].conn_id && final(seq_tracker).entries@[seq_slot(s)].seq == s
                    && final(seq_tracker).entries@[seq_slot(s)].timestamp_ms == packet_time_ms
                    && (forall|i: int| 0 <= i < 16384 && i != seq_slot(s) ==> #[trigger] final(seq_tracker).entries@[i] == old(seq_tracker).entries@[i]),
                None => final(seq_tracker).entries@ == old(seq_tracker).entries@ })''' % SEL),
                   C('C11.route.forward.every_routed_packet_becomes_the_hysteresis_anchor', 'sel_idx < old(connections).len() ==> *final(last_selected_idx) == Some(sel_idx)'),
                   'sel_idx >= old(connections).len() ==> final(connections)@ == old(connections)@ && final(seq_tracker).entries@ == old(seq_tracker).entries@',
                   'forall|j: int| 0 <= j < old(connections).len() ==> (#[trigger] final(connections)[j]).conn_id == old(connections)[j].conn_id',
               ]))

    # ---------------- send_stall_probes ----------------
    u.add(u.fn(PH, 'send_stall_probes', sub='route', erase_async=True, props=(),
               post_rewrite=[('&io.socket', 'io.sock()', 1)],
               requires=['route_wf(old(connections)@)', 'forall|j: int| 0 <= j < old(connections).len() && j != sel_idx ==> size_ok(&#[trigger] old(connections)[j])'],
               ensures=[
                   'final(connections).len() == old(connections).len()', 'route_wf(final(connections)@)',
                   C('C01+C04.route.probes.only_stall_gated_connected_links_other_than_the_selected_one', '''forall|j: int| 0 <= j < old(connections).len() && (j == sel_idx || !old(connections)[j].stall_gated || !old(connections)[j].connected)
            ==> #[trigger] final(connections)[j] == old(connections)[j]'''),
                   C('C01+C02.route.probes.at_most_one_identical_copy_per_100_routed_packets_with_its_sequence_number', '''forall|j: int| 0 <= j < old(connections).len() && j != sel_idx && old(connections)[j].stall_gated && old(connections)[j].connected ==> ({
                let o = &old(connections)[j]; let n = &#[trigger] final(connections)[j];
                if o.stall_probe_counter + 1 >= 100 {
                    // the 100th routed packet since the last probe: one identical copy queued (or the batch flushed)
                    (n.batch_sender.queue.len() == o.batch_sender.queue.len() + 1 && n.batch_sender.view_at(o.batch_sender.queue.len() as int) == (pkt@, seq, packet_time_ms) && n.stall_probe_counter == 0)
                    || flushed(n)
                } else {
                    // otherwise only the cadence counter advances
                    *n == (SrtlaConnection { stall_probe_counter: (o.stall_probe_counter + 1) as u32, ..*o })
                }
            })'''),
               ],
               loops={0: dict(inv=['i_nx <= connections.len()', 'connections.len() == old(connections).len()', 'route_wf(connections@)',
                                   'forall|j: int| 0 <= j < old(connections).len() && j != sel_idx ==> size_ok(&#[trigger] old(connections)[j])',
                                   'forall|j: int| i_nx <= j < connections.len() ==> #[trigger] connections[j] == old(connections)[j]',
                                   C('C01+C04.route.probes.only_stall_gated_connected_links_other_than_the_selected_one', '''forall|j: int| 0 <= j < i_nx && (j == sel_idx || !old(connections)[j].stall_gated || !old(connections)[j].connected)
                ==> #[trigger] connections[j] == old(connections)[j]'''),
                                   C('C01+C02.route.probes.at_most_one_identical_copy_per_100_routed_packets_with_its_sequence_number', '''forall|j: int| 0 <= j < i_nx && j != sel_idx && old(connections)[j].stall_gated && old(connections)[j].connected ==> ({
                    let o = &old(connections)[j]; let n = &#[trigger] connections[j];
                    if o.stall_probe_counter + 1 >= 100 {
                        (n.batch_sender.queue.len() == o.batch_sender.queue.len() + 1 && n.batch_sender.view_at(o.batch_sender.queue.len() as int) == (pkt@, seq, packet_time_ms) && n.stall_probe_counter == 0)
                        || flushed(n)
                    } else {
                        *n == (SrtlaConnection { stall_probe_counter: (o.stall_probe_counter + 1) as u32, ..*o })
                    }
                })''')],
                              dec='connections.len() - i_nx')}))

    # ---------------- flush_all_batches ----------------
    pred = any_helper('flush_all_batches', PH, r'let has_work = connections\s*\.iter\(\)\s*\.any\(\|c\| (.*?)\);')
    u.add('''
// R12: helper generated from `connections.iter().any(|c| ..)` in flush_all_batches; predicate text copied from the source
pub fn flush_has_work(connections: &[SrtlaConnection], now: u64) -> (r: bool)
    ensures !r ==> forall|j: int| 0 <= j < connections.len() ==> (#[trigger] connections[j]).batch_sender.queue.len() == 0,  // @ob C01.route.flush.idle_only_when_every_queue_is_empty
{
    let mut c_nx: usize = 0;
    while c_nx < connections.len()
        invariant c_nx <= connections.len(),
            forall|j: int| 0 <= j < c_nx ==> (#[trigger] connections[j]).batch_sender.queue.len() == 0,  // @ob C01.route.flush.idle_only_when_every_queue_is_empty
        decreases connections.len() - c_nx,
    {
        let c = &connections[c_nx]; c_nx += 1;
        if %s { return true; }
    }
    false
}
''' % pred)
    u.add(u.fn(PH, 'flush_all_batches', sub='route', erase_async=True, props=(),
               pre_rewrite=[(re.compile(r'let has_work = connections\s*\.iter\(\)\s*\.any\(\|c\| .*?\);', re.S), 'let has_work = flush_has_work(connections, now);', 1)],
               post_rewrite=[('&io.socket', 'io.sock()', 1), ],
               requires=['route_wf(old(connections)@)', 'sizes_ok(old(connections)@)'],
               ensures=[
                   'final(connections).len() == old(connections).len()', 'route_wf(final(connections)@)',
                   C('C01.route.flush.tick_drains_every_queue_that_has_a_socket', '''forall|j: int| 0 <= j < old(connections).len() && conn_io@.contains_key(old(connections)[j].conn_id)
            ==> (#[trigger] final(connections)[j]).batch_sender.queue.len() == 0'''),
                   C('C01+C12.route.flush.frame', 'forall|j: int| 0 <= j < old(connections).len() ==> (#[trigger] final(connections)[j]).same_except_take_batch(&old(connections)[j])'),
               ],
               loops={0: dict(inv=['conn_nx <= connections.len()', 'connections.len() == old(connections).len()', 'route_wf(connections@)', 'sizes_ok(old(connections)@)',
                                   'forall|j: int| conn_nx <= j < connections.len() ==> #[trigger] connections[j] == old(connections)[j]',
                                   C('C01.route.flush.tick_drains_every_queue_that_has_a_socket', '''forall|j: int| 0 <= j < conn_nx && conn_io@.contains_key(old(connections)[j].conn_id)
                ==> (#[trigger] connections[j]).batch_sender.queue.len() == 0'''),
                                   C('C01+C12.route.flush.frame', 'forall|j: int| 0 <= j < conn_nx ==> (#[trigger] connections[j]).same_except_take_batch(&old(connections)[j])')],
                              dec='connections.len() - conn_nx')}))

    # ---------------- handle_srt_packet ----------------
    u.add(u.fn(PH, 'handle_srt_packet', sub='route', erase_async=True, props=(),
               post_rewrite=[('Result<(usize, SocketAddr), std::io::Error>', 'Result<(usize, SocketAddr), IoError>', 1), 
                             
                             
                             ('Err(e) => (),', 'Err(_e) => (),', 1)],
               requires=['route_wf(old(connections)@)', 'sizes_ok(old(connections)@)', 'counters_ok(old(connections)@)', 'res is Ok ==> res->Ok_0.0 <= old(recv_buf).len()'],
               ensures=['final(connections).len() == old(connections).len()', 'route_wf(final(connections)@)',
                        C('C09.route.handle_srt_packet.client_address_learned_from_the_datagram', 'res is Ok && res->Ok_0.0 > 0 ==> *final(last_client_addr) == Some(res->Ok_0.1)')],
               splices=[
                   ('let mut sel_idx =\n                select_connection_idx(', 'proof { lemma_route_wf_gives_select_pre(connections@); }\n            let mut sel_idx =\n                select_connection_idx(', 'replace'),
                   ('select_connection_idx(connections, *last_selected_idx, packet_time_ms, config_snap);', '''let ghost sched = connections@; let ghost sched_choice = sel_idx;
            proof {
                assert forall|i: int| 0 <= i < connections.len() implies route_link_wf(&#[trigger] connections[i]) && size_ok(&connections[i]) by {
                    assert(old(connections)[i].same_acct(&connections[i])); assert(route_link_wf(&old(connections)[i])); assert(size_ok(&old(connections)[i]));
                    assert(connections[i].latch_wf() && q_ok(connections[i].quality_cache.multiplier));
                }
            }''', 'after'),
                   ('if let Some(sel_idx) = sel_idx {', '''proof {
                assert(sched_choice is Some ==> sel_idx is Some);  // @ob C01+C03.route.handle_srt_packet.a_packet_the_scheduler_placed_is_never_dropped_by_the_override
            }''', 'before', 'last'),
                   ('if let Some(sel_idx) = sel_idx {', '''proof {
                    assert(sel_idx < connections.len());
                    assert(connections[sel_idx as int].eligible(packet_time_ms));  // @ob C04.route.handle_srt_packet.every_routed_copy_goes_to_an_eligible_uplink
                    assert(config_snap.mode is Classic ==> Some(sel_idx) == sched_choice);  // @ob C10.route.handle_srt_packet.classic_mode_routes_every_packet_kind_by_the_reference_choice
                    assert(!config_snap.stall_deselect ==> forall|i: int| 0 <= i < connections.len() ==> !(#[trigger] connections[i]).stall_gated && connections[i].stall_latched_since_ms == 0);  // @ob C12.route.handle_srt_packet.with_the_guard_off_no_flag_or_latch_is_left_when_the_packet_is_routed
                }''', 'after', 'last'),     # the LAST occurrence: the registered-session path (the first one is pre-registration forwarding)
               ]))
    return u
