"""process_uplink_packet (src/sender/uplink_recv.rs): C07 (connected only on REG3), C09 (relay), C13 (delivery proof)."""
import re

from gen import C
from rustlex import match_bracket

UR = 'src/sender/uplink_recv.rs'

UP_SPEC = r'''
// ---------- uplink receive path (C07, C09, C13) ----------
pub open spec fn is_reg_type(t: u16) -> bool { t == 0x9211u16 || t == 0x9201u16 || t == 0x9202u16 || t == 0x9210u16 }
// SRTLA-internal datagrams: REG_NGP / REG2 / REG3 / REG_ERR replies, SRTLA ACK, keepalive echo
pub open spec fn is_internal_type(t: u16) -> bool { is_reg_type(t) || t == 0x9100u16 || t == 0x9000u16 }
pub open spec fn expected_forward(data: Seq<u8>) -> Seq<Seq<u8>> {
    match spec_packet_type(data) { None => Seq::empty(), Some(t) => if is_internal_type(t) { Seq::empty() } else { seq![data] } }
}
// everything process_uplink_packet may conclude at the clock value `now` it read
pub open spec fn uplink_post(o: &SrtlaConnection, n: &SrtlaConnection, data: Seq<u8>, now: u64) -> bool {
    let t = spec_packet_type(data);
    &&& 0 < now < CLOCK_MAX
    // every non-registration datagram (>= 2 bytes) refreshes the liveness stamp
    &&& (t is Some && !is_reg_type(t.unwrap()) ==> n.last_received == Some(now))
    &&& (t == Some(0x9202u16) ==> n.connected && n.last_received == Some(now) && n.phase == (LinkPhase::Warming { rtt_probes: 0, entered_ms: now })
            && n.in_flight_packets == 0 && n.packet_log@.len() == 0 && n.window == o.window
            // REG3 neither arms an RTT probe nor moves the keepalive cadence clock nor counts as delivery proof
            && n.rtt == o.rtt && n.last_keepalive_sent == o.last_keepalive_sent && n.last_ack_or_rtt_sample_ms == o.last_ack_or_rtt_sample_ms
            // REG3 restarts the back-off (failure count) but never the 5 s retry timer
            && n.reconnection.last_reconnect_attempt_ms == o.reconnection.last_reconnect_attempt_ms && n.reconnection.reconnect_failure_count == 0
            && n.reconnection.connection_established_ms == (if o.reconnection.connection_established_ms == 0 { now } else { o.reconnection.connection_established_ms }))
    &&& (n.last_ack_or_rtt_sample_ms != o.last_ack_or_rtt_sample_ms ==> n.last_ack_or_rtt_sample_ms == now)
}
'''


def _ack_fast_path(text):
    m = re.search(r'if let Some\(addr\) = client_addr \{\s*match local_listener\.try_send_to', text)
    if not m:
        return text
    ob = text.index('{', m.start())
    cb = match_bracket(text, ob, '{', '}')
    return text[:m.start()] + 'io_ack_fast_path(local_listener, instant_forwarder, client_addr, &ack_packet);' + text[cb + 1:]


def add_uplink(u):
    u.add(UP_SPEC)
    T = 'spec_packet_type(data@)'
    u.add(u.fn(UR, 'process_uplink_packet', sub='events', ret='r', erase_async=True, props=('C09',),
               pre_rewrite=[(_ack_fast_path, None, 1),
                            ('for seq in nak_list {', 'for &seq in nak_list.iter() {', 1), ('for seq in ack_list {', 'for &seq in ack_list.iter() {', 1)],
               post_rewrite=[('-> Result<SrtlaIncoming>', '-> Result<SrtlaIncoming, AnyhowError>', 1), 
                             (re.compile(r'SrtlaIncoming \{\s*read_any: true,\s*\.\.Default::default\(\)\s*,?\s*\}'), 'srtla_incoming_new()', 1),
                             ('&tokio::sync::mpsc::UnboundedSender<(SocketAddr, Vec<u8>)>', '&InstantFwd', 1)],
               requires=['old(conn).phase is Warming ==> old(conn).phase->rtt_probes < 0xffff_ffff'],
               ensures=[
                   'r is Ok',
                   C('C09.uplink.forwards_exactly_the_non_internal_datagrams_unchanged', 'vec_views(r->Ok_0.forward_to_client@) =~= expected_forward(data@)'),
                   C('C07.uplink.connected_only_on_reg3_received_on_this_uplink', '!old(conn).connected && final(conn).connected ==> %s == Some(0x9202u16)' % T),
                   C('C07+C17.uplink.reg_err_disconnects', '%s == Some(0x9210u16) ==> !final(conn).connected && final(conn).last_received is None' % T),
                   C('C09+C13.uplink.delivery_proof_only_from_an_answered_keepalive',
                     'final(conn).last_ack_or_rtt_sample_ms != old(conn).last_ack_or_rtt_sample_ms ==> %s == Some(0x9000u16) && old(conn).rtt.waiting_for_keepalive_response && spec_keepalive_ts(data@) is Some' % T),
                   C('C04+C07+C08+C09+C10+C13+C14.uplink.liveness_stamp_and_clean_rejoin', 'exists|now: u64| #[trigger] uplink_post(old(conn), final(conn), data@, now)'),
                   C('C02+C09.uplink.ack_nak_lists_are_exactly_the_parsed_lists',
                     'r->Ok_0.ack_numbers@ =~= (if %s == Some(0x8002u16) && spec_parse_srt_ack(data@) is Some { seq![spec_parse_srt_ack(data@).unwrap()] } else { Seq::<u32>::empty() })\n'
                     '            && r->Ok_0.nak_numbers@ =~= (if %s == Some(0x8003u16) { spec_parse_srt_nak(data@) } else { Seq::<u32>::empty() })\n'
                     '            && r->Ok_0.srtla_ack_numbers@ =~= (if %s == Some(0x9100u16) { spec_parse_srtla_ack(data@) } else { Seq::<u32>::empty() })' % (T, T, T)),
                   C('C02+C06+C12.uplink.accounting_untouched_unless_reg3', '%s != Some(0x9202u16) ==> final(conn).same_except_uplink(old(conn))' % T),
                   'final(conn).conn_id == old(conn).conn_id',
                   'final(conn).phase is Warming ==> final(conn).phase->rtt_probes < 0xffff_ffff',
                   'r->Ok_0.read_any',
               ],
               loops={
                   0: dict(inv=['seq_nx <= nak_list.len()', 'incoming.nak_numbers@ =~= nak_list@.subrange(0, seq_nx as int)', 'incoming.ack_numbers.len() == 0', 'incoming.srtla_ack_numbers.len() == 0',
                                'incoming.forward_to_client.len() == 0', 'incoming.read_any'], dec='nak_list.len() - seq_nx'),
                   1: dict(inv=['seq_nx <= ack_list.len()', 'incoming.srtla_ack_numbers@ =~= ack_list@.subrange(0, seq_nx as int)', 'incoming.ack_numbers.len() == 0', 'incoming.nak_numbers.len() == 0',
                                'incoming.forward_to_client.len() == 0', 'incoming.read_any'], dec='ack_list.len() - seq_nx'),
               },
               splices=[
                   ('return Ok(incoming);', '''proof {
                assert(uplink_post(old(conn), conn, data@, now));  // @ob C04+C07+C08+C09+C10+C13+C14.uplink.liveness_stamp_and_clean_rejoin
            }''', 'before'),
                   ('    Ok(incoming)\n}', '''    proof {
        assert(uplink_post(old(conn), conn, data@, now));  // @ob C04+C07+C08+C09+C10+C13+C14.uplink.liveness_stamp_and_clean_rejoin
    }
    Ok(incoming)
}''', 'replace'),
               ]))
