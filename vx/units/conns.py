"""Unit `conns` (C19): src/sender/connections.rs::apply_connection_changes -- what an IP-list reload does to the link list, the I/O map,
the NAK-attribution tracker and the sticky routing choice.

Rewrites (mechanical, rules R19a-d in vx/rules.py): the four iterator chains (map/collect into a set, filter/map/collect, Vec::retain,
copied/filter/filter/collect) become cursor loops with the closure texts kept verbatim.
Trusted stubs: the label format! (an uninterpreted function of host, port and address), HashSet<String> / HashSet<IpAddr> (ghost Set
views), String::clone, create_connections_from_ips (opens sockets; contract below is ASSUMED)."""
import re

from gen import C
import rules

RLIMIT = 30
import world
import reg as regunit
import shell

CN = 'src/sender/connections.rs'

STUBS = r'''
// ---------- C19 stubs ----------
#[verifier::external_body] pub struct BinderArc { _p: () }
// format!("{}:{} via {}", host, port, ip): an uninterpreted function of its three arguments
pub uninterp spec fn spec_label(host: Seq<char>, port: u16, ip: IpAddr) -> Seq<char>;
#[verifier::external_body] pub fn uplink_label(host: &str, port: u16, ip: &IpAddr) -> (r: String) ensures r@ == spec_label(host@, port, *ip) { unimplemented!() }
#[verifier::external_body] pub fn string_unknown() -> String { unimplemented!() }
#[verifier::external_body] pub fn string_clone(s: &String) -> (r: String) ensures r@ == s@ { s.clone() }
// HashSet<String>
#[verifier::external_body] pub struct LabelSet { _p: () }
impl LabelSet {
    pub uninterp spec fn view(&self) -> Set<Seq<char>>;
    #[verifier::external_body] pub fn new() -> (r: LabelSet) ensures r@ == Set::<Seq<char>>::empty() { unimplemented!() }
    #[verifier::external_body] pub fn insert(&mut self, s: String) -> (r: bool) ensures final(self)@ == old(self)@.insert(s@), r == !old(self)@.contains(s@) { unimplemented!() }
    #[verifier::external_body] pub fn contains(&self, s: &String) -> (r: bool) ensures r == self@.contains(s@) { unimplemented!() }
}
// HashSet<IpAddr>
#[verifier::external_body] pub struct IpSet { _p: () }
impl IpSet {
    pub uninterp spec fn view(&self) -> Set<IpAddr>;
    #[verifier::external_body] pub fn new() -> (r: IpSet) ensures r@ == Set::<IpAddr>::empty() { unimplemented!() }
    #[verifier::external_body] pub fn insert(&mut self, ip: IpAddr) -> (r: bool) ensures final(self)@ == old(self)@.insert(ip), r == !old(self)@.contains(ip) { unimplemented!() }
}
// socket work of connect_uplink: trusted, no contract needed (each may fail)
#[verifier::external_body] pub struct RawSock { _p: () }
#[verifier::external_body] pub struct SockArc { _p: () }
#[verifier::external_body] pub fn resolve_remote(host: &str, port: u16) -> Result<std::net::SocketAddr, AnyhowError> { unimplemented!() }
#[verifier::external_body] pub fn create_uplink_socket(ip: IpAddr) -> Result<RawSock, IoError> { unimplemented!() }
impl BinderArc { #[verifier::external_body] pub fn bind(&self, s: &RawSock, ip: IpAddr) -> Result<(), IoError> { unimplemented!() } }
impl RawSock {
    #[verifier::external_body] pub fn connect_to(&self, a: &std::net::SocketAddr) -> Result<(), IoError> { unimplemented!() }
    #[verifier::external_body] pub fn set_nonblocking(&self, b: bool) -> Result<(), IoError> { unimplemented!() }
}
#[verifier::external_body] pub fn batch_socket_arc(s: RawSock) -> Result<SockArc, IoError> { unimplemented!() }
// rand::rng().next_u64(): any value (NOT assumed fresh)
#[verifier::external_body] pub fn random_u64() -> u64 { unimplemented!() }
#[verifier::external_body] pub fn conn_io_new(socket: SockArc, binder: &BinderArc, remote: std::net::SocketAddr) -> ConnIo { unimplemented!() }


// ---------- sync_readers (src/sender/uplink.rs): reader tasks follow the link list ----------
#[verifier::external_body] pub struct ReaderHandle { _p: () }
#[verifier::external_body] pub struct PacketTx { _p: () }
#[verifier::external_body] pub fn spawn_reader(id: u64, label: String, socket: SockArc, tx: PacketTx) -> ReaderHandle { unimplemented!() }
#[verifier::external_body] pub fn io_socket_clone(io: &ConnIo) -> SockArc { unimplemented!() }
#[verifier::external_body] pub fn tx_clone(tx: &PacketTx) -> PacketTx { unimplemented!() }
#[verifier::external_body] pub fn reader_abort(r: &mut ReaderHandle) { }
// restart_reader_for: a reader task keeps running when its handle is merely DROPPED (tokio detaches it); only abort() stops it.
// `X.handle.abort()` on an owned handle is modelled as `reader_drop(reader_aborted(X))` (abort, then the handle goes away), the end of the scope of a
// handle that was NOT aborted as `reader_drop(X)`,
// and installing a handle over an existing one (HashMap::insert returns and drops the old value) as a precondition of the insert.
impl ReaderHandle { pub uninterp spec fn aborted(&self) -> bool; }
#[verifier::external_body] pub fn reader_aborted(r: ReaderHandle) -> (a: ReaderHandle) ensures a.aborted() { r }
#[verifier::external_body] pub fn reader_drop(r: ReaderHandle)
    requires r.aborted(),  // @ob C08+C19.conns.restart_reader_for.the_replaced_reader_task_is_aborted_not_detached
{ }
#[verifier::external_body] pub fn readers_remove(m: &mut HashMap<u64, ReaderHandle>, k: u64) -> (r: Option<ReaderHandle>)
    ensures final(m)@ == old(m)@.remove(k), (r is Some) == old(m)@.contains_key(k),
{ m.remove(&k) }
#[verifier::external_body] pub fn readers_install(m: &mut HashMap<u64, ReaderHandle>, k: u64, v: ReaderHandle)
    requires !old(m)@.contains_key(k),  // @ob C08+C19.conns.restart_reader_for.no_reader_handle_is_overwritten_while_its_task_runs
    ensures final(m)@ == old(m)@.insert(k, v),
{ m.insert(k, v); }
// ---------- the reader task (body of the `tokio::spawn(async move { .. })` in spawn_reader, verified as if run in place) ----------
pub struct UplinkPacket { pub conn_id: u64, pub bytes: Vec<u8> }
#[verifier::external_body] pub struct RecvMmsgBuffer { _p: () }
impl RecvMmsgBuffer {
    // the datagrams of the last received batch, in arrival order
    pub uninterp spec fn view(&self) -> Seq<Seq<u8>>;
    #[verifier::external_body] pub fn new() -> (r: RecvMmsgBuffer) { unimplemented!() }
}
// recvmmsg: Ok(n) = the buffer now holds n datagrams (nothing is assumed about them); Err = receive error
#[verifier::external_body] pub fn sock_recv_batch(s: &SockArc, b: &mut RecvMmsgBuffer) -> (r: Result<usize, IoError>)
    ensures r is Ok ==> final(b)@.len() == r->Ok_0,
{ unimplemented!() }
#[verifier::external_body] pub fn recv_buf_datagrams(b: &RecvMmsgBuffer) -> (r: Vec<Vec<u8>>)
    ensures r@.len() == b@.len(), forall|i: int| 0 <= i < r@.len() ==> (#[trigger] r@[i])@ == b@[i],
{ unimplemented!() }
// UnboundedSender::send(..).is_err(): true = the event loop is gone
#[verifier::external_body] pub fn tx_send_failed(tx: &PacketTx, p: UplinkPacket) -> bool { unimplemented!() }
#[verifier::external_body] pub fn sleep_ms(ms: u64) { }
// the non-empty datagrams among the first n of a batch, in order
pub open spec fn relayed(b: Seq<Vec<u8>>, n: int) -> Seq<Seq<u8>>
    decreases n
{
    if n <= 0 { Seq::empty() } else if b[n - 1]@.len() > 0 { relayed(b, n - 1).push(b[n - 1]@) } else { relayed(b, n - 1) }
}
pub type ConnectionId = u64;
// HashSet<u64>
#[verifier::external_body] pub struct IdSet { _p: () }
impl IdSet {
    pub uninterp spec fn view(&self) -> Set<u64>;
    #[verifier::external_body] pub fn new() -> (r: IdSet) ensures r@ == Set::<u64>::empty() { unimplemented!() }
    #[verifier::external_body] pub fn insert(&mut self, k: u64) -> (r: bool) ensures final(self)@ == old(self)@.insert(k) { unimplemented!() }
    #[verifier::external_body] pub fn contains(&self, k: &u64) -> (r: bool) ensures r == self@.contains(*k) { unimplemented!() }
}
// HashMap::retain support (rule R19e): the keys, each once; mutable access to one value (domain unchanged)
#[verifier::external_body] pub fn hashmap_keys_u64(m: &HashMap<u64, ReaderHandle>) -> (r: Vec<u64>)
    ensures forall|k: u64| r@.contains(k) == #[trigger] m@.contains_key(k), forall|a: int, b: int| 0 <= a < b < r.len() ==> r[a] != r[b],
{ m.keys().copied().collect() }
#[verifier::external_body] pub fn hashmap_get_mut_u64<'a>(m: &'a mut HashMap<u64, ReaderHandle>, k: u64) -> (r: Option<&'a mut ReaderHandle>)
    ensures (r is Some) == old(m)@.contains_key(k), final(m)@.dom() == old(m)@.dom(),
{ m.get_mut(&k) }
pub open spec fn has_conn_id(s: Seq<SrtlaConnection>, n: int, id: u64) -> bool { exists|j: int| 0 <= j < n && j < s.len() && (#[trigger] s[j]).conn_id == id }
// ---------- C19 spec ----------
pub open spec fn desired(host: Seq<char>, port: u16, ips: Seq<IpAddr>, label: Seq<char>) -> bool {
    exists|k: int| 0 <= k < ips.len() && spec_label(host, port, #[trigger] ips[k]) == label
}
// the links whose label is still listed, in their old order
pub open spec fn keep_desired(s: Seq<SrtlaConnection>, host: Seq<char>, port: u16, ips: Seq<IpAddr>) -> Seq<SrtlaConnection>
    decreases s.len()
{
    if s.len() == 0 { Seq::empty() } else {
        let r = keep_desired(s.drop_last(), host, port, ips);
        if desired(host, port, ips, s.last().label@) { r.push(s.last()) } else { r }
    }
}

pub open spec fn desired_n(host: Seq<char>, port: u16, ips: Seq<IpAddr>, n: int, label: Seq<char>) -> bool {
    exists|k: int| 0 <= k < n && k < ips.len() && spec_label(host, port, #[trigger] ips[k]) == label
}
pub open spec fn has_label(s: Seq<SrtlaConnection>, n: int, label: Seq<char>) -> bool { exists|i: int| 0 <= i < n && i < s.len() && (#[trigger] s[i]).label@ == label }
pub proof fn lemma_keep_desired_step(s: Seq<SrtlaConnection>, n: int, host: Seq<char>, port: u16, ips: Seq<IpAddr>)
    requires 0 <= n < s.len(),
    ensures keep_desired(s.subrange(0, n + 1), host, port, ips)
        == (if desired(host, port, ips, s[n].label@) { keep_desired(s.subrange(0, n), host, port, ips).push(s[n]) } else { keep_desired(s.subrange(0, n), host, port, ips) }),
{
    assert(s.subrange(0, n + 1).drop_last() =~= s.subrange(0, n));
    assert(s.subrange(0, n + 1).last() == s[n]);
}
pub proof fn lemma_keep_desired_len(s: Seq<SrtlaConnection>, host: Seq<char>, port: u16, ips: Seq<IpAddr>)
    ensures keep_desired(s, host, port, ips).len() <= s.len(),
        keep_desired(s, host, port, ips).len() == s.len() ==> forall|i: int| 0 <= i < s.len() ==> desired(host, port, ips, (#[trigger] s[i]).label@),
    decreases s.len(),
{
    if s.len() > 0 {
        lemma_keep_desired_len(s.drop_last(), host, port, ips);
        if keep_desired(s, host, port, ips).len() == s.len() {
            assert forall|i: int| 0 <= i < s.len() implies desired(host, port, ips, (#[trigger] s[i]).label@) by {
                if i < s.len() - 1 { assert(s.drop_last()[i] == s[i]); }
            }
        }
    }
}

pub open spec fn from_unlisted(conns: Seq<SrtlaConnection>, n: int, id: u64, host: Seq<char>, port: u16, ips: Seq<IpAddr>) -> bool {
    exists|i: int| 0 <= i < n && i < conns.len() && (#[trigger] conns[i]).conn_id == id && !desired(host, port, ips, conns[i].label@)
}
// the ids collected for purging are exactly the ids of the links whose label is no longer listed
pub open spec fn removed_ok(conns: Seq<SrtlaConnection>, n: int, ids: Seq<u64>, host: Seq<char>, port: u16, ips: Seq<IpAddr>) -> bool {
    &&& forall|i: int| 0 <= i < n && i < conns.len() && !desired(host, port, ips, (#[trigger] conns[i]).label@) ==> ids.contains(conns[i].conn_id)
    &&& forall|j: int| 0 <= j < ids.len() ==> from_unlisted(conns, n, #[trigger] ids[j], host, port, ips)
}
pub open spec fn entry_zero(e: SequenceTrackingEntry) -> bool { e.conn_id == 0 && e.timestamp_ms == 0 && e.seq == 0 }
// after purging the first n collected ids: their I/O handles are gone, their tracker records are blank, everything else is as before
pub open spec fn purged(io0: Map<u64, ConnIo>, io: Map<u64, ConnIo>, tr0: Seq<SequenceTrackingEntry>, tr: Seq<SequenceTrackingEntry>, ids: Seq<u64>, n: int) -> bool {
    &&& forall|k: u64| #[trigger] io.contains_key(k) == (io0.contains_key(k) && !ids.subrange(0, n).contains(k))
    &&& forall|k: u64| io.contains_key(k) ==> #[trigger] io[k] == io0[k]
    &&& tr.len() == tr0.len()
    &&& forall|s: int| 0 <= s < tr0.len() ==> (if ids.subrange(0, n).contains(tr0[s].conn_id) { entry_zero(#[trigger] tr[s]) } else { tr[s] == tr0[s] })
}

pub proof fn lemma_prefix_contains(ids: Seq<u64>, n: int, k: u64)
    requires 0 < n <= ids.len(),
    ensures ids.subrange(0, n).contains(k) == (ids.subrange(0, n - 1).contains(k) || ids[n - 1] == k),
{
    let a = ids.subrange(0, n);
    let b = ids.subrange(0, n - 1);
    if a.contains(k) {
        let j = choose|j: int| 0 <= j < a.len() && a[j] == k;
        if j < n - 1 { assert(b[j] == k); }
    }
    if b.contains(k) {
        let j = choose|j: int| 0 <= j < b.len() && b[j] == k;
        assert(a[j] == k);
    }
    if ids[n - 1] == k { assert(a[n - 1] == k); }
}

pub open spec fn has_id(s: Seq<SrtlaConnection>, id: u64) -> bool { exists|j: int| 0 <= j < s.len() && (#[trigger] s[j]).conn_id == id }
// NAK-attribution records: blank for the purged ids, untouched for every other id
pub open spec fn tracker_purged(tr0: Seq<SequenceTrackingEntry>, tr: Seq<SequenceTrackingEntry>, ids: Seq<u64>) -> bool {
    tr.len() == tr0.len() && forall|s: int| 0 <= s < tr0.len() ==> (if ids.contains(tr0[s].conn_id) { entry_zero(#[trigger] tr[s]) } else { tr[s] == tr0[s] })
}
// I/O handles: gone for the purged ids, untouched for every other id -- in both cases unless a link created by this very reload drew the
// same random 64-bit id (connect_uplink does not check for a collision; the contract says so instead of assuming freshness)
pub open spec fn io_purged(io0: Map<u64, ConnIo>, io: Map<u64, ConnIo>, ids: Seq<u64>, added: Seq<SrtlaConnection>) -> bool {
    &&& forall|k: u64| io0.contains_key(k) && !ids.contains(k) && !has_id(added, k) ==> #[trigger] io.contains_key(k) && io[k] == io0[k]
    &&& forall|k: u64| ids.contains(k) && #[trigger] io.contains_key(k) ==> has_id(added, k)
}

pub open spec fn is_listed(ips: Seq<IpAddr>, n: int, ip: IpAddr) -> bool { exists|k: int| 0 <= k < n && k < ips.len() && #[trigger] ips[k] == ip }
// the addresses that still need a link: listed, seen once, and no existing link carries their label
pub open spec fn needed_ok(needed: Seq<IpAddr>, ips: Seq<IpAddr>, n: int, seen: Set<IpAddr>, conns0: Seq<SrtlaConnection>, host: Seq<char>, port: u16) -> bool {
    &&& forall|j: int| 0 <= j < needed.len() ==> is_listed(ips, n, #[trigger] needed[j]) && seen.contains(needed[j]) && !has_label(conns0, conns0.len() as int, spec_label(host, port, needed[j]))
    &&& forall|a: int, b: int| 0 <= a < b < needed.len() ==> needed[a] != needed[b]
}
// what may be appended: links for pairwise different listed addresses none of which had a link before
pub open spec fn added_ok(added: Seq<SrtlaConnection>, src: Seq<int>, ips: Seq<IpAddr>, conns0: Seq<SrtlaConnection>, host: Seq<char>, port: u16) -> bool {
    &&& src.len() == added.len()
    &&& forall|j: int| 0 <= j < src.len() ==> 0 <= #[trigger] src[j] < ips.len() && added[j].label@ == spec_label(host, port, ips[src[j]])
            && !has_label(conns0, conns0.len() as int, spec_label(host, port, ips[src[j]]))
    &&& forall|a: int, b: int| 0 <= a < b < src.len() ==> ips[src[a]] != ips[src[b]]
}
pub open spec fn created_ok(r: Seq<SrtlaConnection>, idx: Seq<int>, ips: Seq<IpAddr>, host: Seq<char>, port: u16) -> bool {
    &&& idx.len() == r.len()
    &&& forall|j: int| 0 <= j < r.len() ==> 0 <= #[trigger] idx[j] < ips.len() && r[j].label@ == spec_label(host, port, ips[idx[j]])
    &&& forall|a: int, b: int| 0 <= a < b < r.len() ==> idx[a] < idx[b]
}
'''


LABEL_FMT = '{}:{} via {}'


def _fmt(ip_expr):
    """format!(FMT, args..) -> uplink_label(host, port, ip) when FMT is the uplink label format and the arguments are the receiver host, the
    receiver port and the address; any OTHER format string becomes `string_unknown()` (a string about which nothing is known), so a link
    labelled differently from what reloads match on no longer satisfies the label contracts."""
    def f(text):
        def sub(m):
            args = [a.strip() for a in m.group(2).split(',') if a.strip()]
            if m.group(1) == LABEL_FMT and args == ['receiver_host', 'receiver_port', 'ip']:
                return 'uplink_label(receiver_host, receiver_port, %s)' % ip_expr
            return 'string_unknown()'
        return re.sub(r'format!\(\s*"([^"]*)"((?:\s*,\s*[^,()]+)*)\s*,?\s*\)', sub, text)
    return f


def _reader_scope_end(text):
    """drop elaboration for a ReaderHandle bound by `if let Some(X) = readers_remove(..) { .. }`: the binding dies at the end of the block."""
    out = text
    pos = 0
    while True:
        m = re.compile(r'if let Some\((\w+)\) = readers_remove\([^)]*\) \{').search(out, pos)
        if not m:
            return out
        ob = m.end() - 1
        cb = rules.match_bracket(out, ob, '{', '}')
        if 'reader_aborted(%s)' % m.group(1) not in out[ob:cb]:
            # the handle is not consumed by an abort inside the block: it is dropped (detached) at the end of the block
            out = out[:cb] + '    reader_drop(%s);\n    ' % m.group(1) + out[cb:]
        pos = m.end()


def _task_body(text):
    """R24: `let handle = tokio::spawn(async move { BODY });  ReaderHandle { handle }`  ->  `BODY` : the spawned task's body is verified as if
    it ran in place, to completion; the JoinHandle / ReaderHandle construction and the return type are dropped."""
    m = re.search(r'let handle = tokio::spawn\(async move \{', text)
    if not m:
        return text
    ob = m.end() - 1
    cb = rules.match_bracket(text, ob, '{', '}')
    tail = re.match(r'\s*\);\s*ReaderHandle \{ handle \}\s*\}\s*$', text[cb + 1:])
    if not tail:
        return text
    head = text[:m.start()]
    head = re.sub(r'\) -> ReaderHandle \{', ') {', head)
    head = head.replace('fn spawn_reader(', 'fn spawn_reader_task(')
    return head + text[ob + 1:cb] + '\n}\n'


def _send(text):
    # every channel send is logged in the ghost `told` (bytes) and must carry this reader's connection id
    return re.sub(r'packet_tx\s*\.send\((UplinkPacket \{.*?\})\)\s*\.is_err\(\)',
                  lambda m: '({ let pkt_out = %s; proof { assert(pkt_out.conn_id == conn_id);  // @ob C09.reader.every_packet_carries_the_id_of_the_link_it_was_read_from\n told = told.push(pkt_out.bytes@); } tx_send_failed(&packet_tx, pkt_out) })' % ' '.join(m.group(1).split()),
                  text, flags=re.S)


def build():
    u = world.build('conns', active=['conns'])
    regunit.add_reg(u)
    u.use('use std::net::SocketAddr;')
    u.use('use std::net::IpAddr;')
    u.add(u.item('crates/srtla-core/src/connection/incoming.rs', 'struct', 'SrtlaIncoming'))
    u.add(shell.STUBS)
    shell.add_seqtrack(u)
    u.add(shell.LINK_SPEC)
    u.add(STUBS)
    H = 'receiver_host@, receiver_port, new_ips@'
    FMT = (_fmt('ip'), None, 0)
    PROOFS = {'DED_after': 'let ghost mut added_g: Seq<SrtlaConnection> = Seq::empty();\n    let ghost mut src_g: Seq<int> = Seq::empty();',
 'DED_before': 'let ghost io_mid = conn_io@;\n'
               '    let ghost ids = removed_conn_ids@;\n'
               '    proof {\n'
               '        assert(removed_ok(old(connections)@, old(connections)@.len() as int, ids, receiver_host@, receiver_port, new_ips@));\n'
               '        if kept.len() == old(connections)@.len() {\n'
               '            // nothing was removed: the purge list is empty\n'
               '            if ids.len() > 0 {\n'
               '                assert(from_unlisted(old(connections)@, old(connections)@.len() as int, ids[0], receiver_host@, receiver_port, new_ips@));\n'
               '                let i = choose|i: int| 0 <= i < old(connections)@.len() && (#[trigger] old(connections)@[i]).conn_id == ids[0] && !desired(receiver_host@, receiver_port, new_ips@, old(connections)@[i].label@);\n'
               '                assert(desired(receiver_host@, receiver_port, new_ips@, old(connections)@[i].label@));\n'
               '            }\n'
               '            assert(ids.len() == 0);\n'
               '            assert(tracker_purged(old(seq_tracker).entries@, seq_tracker.entries@, ids));\n'
               '        } else {\n'
               '            assert(ids.subrange(0, ids.len() as int) =~= ids);\n'
               '            assert(tracker_purged(old(seq_tracker).entries@, seq_tracker.entries@, ids));\n'
               '        }\n'
               '        assert(forall|k: u64| old(conn_io)@.contains_key(k) && !ids.contains(k) ==> #[trigger] io_mid.contains_key(k) && io_mid[k] == old(conn_io)@[k]);\n'
               '        assert(forall|k: u64| ids.contains(k) ==> !#[trigger] io_mid.contains_key(k));\n'
               '    }',
 'L1_after': 'proof { assert(connections@ == old(connections)@); assert(forall|l: Seq<char>| #[trigger] current_labels@.contains(l) == has_label(old(connections)@, old(connections)@.len() as int, l)); }',
 'L1_end': 'proof {\n'
           '            assert forall|l: Seq<char>| #[trigger] current_labels@.contains(l) == has_label(connections@, current_labels_nx as int, l) by {\n'
           '                if has_label(connections@, current_labels_nx as int - 1, l) { let i = choose|i: int| 0 <= i < current_labels_nx - 1 && i < connections@.len() && (#[trigger] connections@[i]).label@ == l; assert(connections@[i].label@ == '
           'l); }\n'
           '                if connections@[current_labels_nx as int - 1].label@ == l { assert(has_label(connections@, current_labels_nx as int, l)); }\n'
           '            }\n'
           '        }',
 'L2_end': 'proof {\n'
           '            assert forall|l: Seq<char>| #[trigger] desired_labels@.contains(l) == desired_n(receiver_host@, receiver_port, new_ips@, desired_labels_nx as int, l) by {\n'
           '                if desired_n(receiver_host@, receiver_port, new_ips@, desired_labels_nx as int - 1, l) { let k = choose|k: int| 0 <= k < desired_labels_nx - 1 && k < new_ips@.len() && spec_label(receiver_host@, receiver_port, #[trigger] '
           'new_ips@[k]) == l; assert(spec_label(receiver_host@, receiver_port, new_ips@[k]) == l); }\n'
           '                if spec_label(receiver_host@, receiver_port, new_ips@[desired_labels_nx as int - 1]) == l { assert(desired_n(receiver_host@, receiver_port, new_ips@, desired_labels_nx as int, l)); }\n'
           '            }\n'
           '        }',
 'L3_begin': 'let ghost r_pre = removed_conn_ids@;',
 'L3_end': 'proof {\n'
           '            let n = removed_conn_ids_nx as int;\n'
           '            let c0 = connections@[n - 1];\n'
           '            assert(desired_labels@.contains(c0.label@) == desired(receiver_host@, receiver_port, new_ips@, c0.label@)) by {\n'
           '                assert(desired_n(receiver_host@, receiver_port, new_ips@, new_ips@.len() as int, c0.label@) == desired(receiver_host@, receiver_port, new_ips@, c0.label@));\n'
           '            }\n'
           '            assert forall|i: int| 0 <= i < n && i < connections@.len() && !desired(receiver_host@, receiver_port, new_ips@, (#[trigger] connections@[i]).label@) implies removed_conn_ids@.contains(connections@[i].conn_id) by {\n'
           '                if i < n - 1 {\n'
           '                    let j = choose|j: int| 0 <= j < r_pre.len() && r_pre[j] == connections@[i].conn_id;\n'
           '                    assert(removed_conn_ids@[j] == connections@[i].conn_id);\n'
           '                } else {\n'
           '                    assert(removed_conn_ids@[removed_conn_ids@.len() - 1] == connections@[i].conn_id);\n'
           '                }\n'
           '            }\n'
           '            assert forall|j: int| 0 <= j < removed_conn_ids@.len() implies from_unlisted(connections@, n, #[trigger] removed_conn_ids@[j], receiver_host@, receiver_port, new_ips@) by {\n'
           '                if j < r_pre.len() {\n'
           '                    assert(from_unlisted(connections@, n - 1, r_pre[j], receiver_host@, receiver_port, new_ips@));\n'
           '                    let i = choose|i: int| 0 <= i < n - 1 && i < connections@.len() && (#[trigger] connections@[i]).conn_id == r_pre[j] && !desired(receiver_host@, receiver_port, new_ips@, connections@[i].label@);\n'
           '                    assert(connections@[i].conn_id == removed_conn_ids@[j]);\n'
           '                } else {\n'
           '                    assert(connections@[n - 1].conn_id == removed_conn_ids@[j]);\n'
           '                }\n'
           '            }\n'
           '        }',
 'L5_begin': 'let ghost io_pre = conn_io@;\n            let ghost tr_pre = seq_tracker.entries@;',
 'L5_end': 'proof {\n'
           '                let n = conn_id_nx as int;\n'
           '                let ids = removed_conn_ids@;\n'
           '                assert(ids[n - 1] == conn_id);\n'
           '                assert forall|k: u64| #[trigger] conn_io@.contains_key(k) == (old(conn_io)@.contains_key(k) && !ids.subrange(0, n).contains(k)) by { lemma_prefix_contains(ids, n, k); }\n'
           '                assert forall|s: int| 0 <= s < tr_pre.len() implies (if ids.subrange(0, n).contains(old(seq_tracker).entries@[s].conn_id) { entry_zero(#[trigger] seq_tracker.entries@[s]) } else { seq_tracker.entries@[s] == '
           'old(seq_tracker).entries@[s] }) by {\n'
           '                    lemma_prefix_contains(ids, n, old(seq_tracker).entries@[s].conn_id);\n'
           '                }\n'
           '            }',
 'RET_after': 'proof {\n'
              '        assert(connections_orig == old(connections)@);\n'
              '        assert(connections_seen == connections_orig.len());\n'
              '        assert(connections_orig.subrange(0, connections_orig.len() as int) =~= connections_orig);\n'
              '        assert(connections@.subrange(0, connections.len() as int) =~= connections@);\n'
              '        lemma_keep_desired_len(connections_orig, receiver_host@, receiver_port, new_ips@);\n'
              '    }\n'
              '    let ghost kept = connections@;\n'
              '    proof { assert(kept =~= keep_desired(old(connections)@, receiver_host@, receiver_port, new_ips@)); }'}
    SPLICES = [('@END',
  '    proof {\n'
  '        assert(connections@ =~= kept + added_g);\n'
  '        assert(connections@.subrange(0, kept.len() as int) =~= kept);\n'
  '        let added = connections@.subrange(kept.len() as int, connections@.len() as int);\n'
  '        assert(added =~= added_g);\n'
  '        assert(added_ok(added, src_g, new_ips@, old(connections)@, receiver_host@, receiver_port));\n'
  '        assert(forall|k: u64| #[trigger] conn_io@.contains_key(k) ==> io_mid.contains_key(k) || has_id(added_g, k));\n'
  '        assert(forall|k: u64| #[trigger] io_mid.contains_key(k) && !has_id(added_g, k) ==> conn_io@.contains_key(k) && conn_io@[k] == io_mid[k]);\n'
  '        assert forall|k: u64| old(conn_io)@.contains_key(k) && !ids.contains(k) && !has_id(added, k) implies #[trigger] conn_io@.contains_key(k) && conn_io@[k] == old(conn_io)@[k] by {\n'
  '            assert(io_mid.contains_key(k) && io_mid[k] == old(conn_io)@[k]);\n'
  '        }\n'
  '        assert forall|k: u64| ids.contains(k) && #[trigger] conn_io@.contains_key(k) implies has_id(added, k) by {\n'
  '            assert(!io_mid.contains_key(k));\n'
  '        }\n'
  '        assert(io_purged(old(conn_io)@, conn_io@, ids, added));\n'
  '        assert forall|i: int| 0 <= i < old(connections)@.len() && desired(receiver_host@, receiver_port, new_ips@, (#[trigger] old(connections)@[i]).label@) implies !ids.contains(old(connections)@[i].conn_id) by {\n'
  '            if ids.contains(old(connections)@[i].conn_id) {\n'
  '                let j = choose|j: int| 0 <= j < ids.len() && ids[j] == old(connections)@[i].conn_id;\n'
  '                assert(from_unlisted(old(connections)@, old(connections)@.len() as int, ids[j], receiver_host@, receiver_port, new_ips@));\n'
  '                let i2 = choose|i2: int| 0 <= i2 < old(connections)@.len() && (#[trigger] old(connections)@[i2]).conn_id == ids[j] && !desired(receiver_host@, receiver_port, new_ips@, old(connections)@[i2].label@);\n'
  '                assert(i2 == i);   // distinct conn ids\n'
  '            }\n'
  '        }\n'
  '    }',
  'before'),
 ('let keep = {',
  'proof {\n'
  '            assert(connections_seen < connections_orig.len());\n'
  '            lemma_keep_desired_step(connections_orig, connections_seen, receiver_host@, receiver_port, new_ips@);\n'
  '            assert(connections@.subrange(connections_rx as int, connections.len() as int)[0] == connections_orig.subrange(connections_seen, connections_orig.len() as int)[0]);\n'
  '            assert(connections@[connections_rx as int] == connections_orig[connections_seen]);\n'
  '        }\n'
  '        let ghost r_pre = connections@;\n'
  '        let ghost r_rx = connections_rx as int;',
  'before'),
 ('if keep { connections_rx += 1; } else { connections.remove(connections_rx); }',
  'proof {\n'
  '            let n = connections_orig.len() as int;\n'
  '            let s0 = connections_seen - 1;\n'
  '            assert(keep == desired(receiver_host@, receiver_port, new_ips@, connections_orig[s0].label@)) by {  // @ob C19.conns.apply.a_link_is_kept_exactly_when_its_label_is_still_listed\n'
  '                assert(desired_n(receiver_host@, receiver_port, new_ips@, new_ips@.len() as int, connections_orig[s0].label@) == desired(receiver_host@, receiver_port, new_ips@, connections_orig[s0].label@));\n'
  '            }\n'
  '            if keep {\n'
  '                assert(connections@ == r_pre);\n'
  '                assert(connections@.subrange(0, r_rx + 1) =~= r_pre.subrange(0, r_rx).push(r_pre[r_rx]));\n'
  '                assert forall|i: int| 0 <= i < connections.len() - (r_rx + 1) implies connections@.subrange(r_rx + 1, connections.len() as int)[i] == connections_orig.subrange(connections_seen, n)[i] by {\n'
  '                    assert(r_pre.subrange(r_rx, r_pre.len() as int)[i + 1] == connections_orig.subrange(s0, n)[i + 1]);\n'
  '                }\n'
  '            } else {\n'
  '                assert(connections@ == r_pre.remove(r_rx));\n'
  '                assert(connections@.subrange(0, r_rx) =~= r_pre.subrange(0, r_rx));\n'
  '                assert forall|i: int| 0 <= i < connections.len() - r_rx implies connections@.subrange(r_rx, connections.len() as int)[i] == connections_orig.subrange(connections_seen, n)[i] by {\n'
  '                    assert(r_pre.subrange(r_rx, r_pre.len() as int)[i + 1] == connections_orig.subrange(s0, n)[i + 1]);\n'
  '                }\n'
  '            }\n'
  '        }',
  'after'),
 ('let added_count = new_connections.len();', 'let ghost nc = new_connections@;', 'before', 'opt'),
 ('connections.append(&mut new_connections);',
  'proof {\n'
  '            added_g = nc; assert(connections@ =~= kept + nc);\n'
  '            let needed = new_ips_needed@;\n'
  '            let idx = choose|idx: Seq<int>| #[trigger] created_ok(nc, idx, needed, receiver_host@, receiver_port);\n'
  '            assert(created_ok(nc, idx, needed, receiver_host@, receiver_port));\n'
  '            let ips = new_ips@;\n'
  '            src_g = Seq::new(nc.len(), |j: int| choose|k: int| 0 <= k < ips.len() && #[trigger] ips[k] == needed[idx[j]]);\n'
  '            assert forall|j: int| 0 <= j < src_g.len() implies 0 <= #[trigger] src_g[j] < ips.len() && ips[src_g[j]] == needed[idx[j]] by {\n'
  '                assert(is_listed(ips, ips.len() as int, needed[idx[j]]));\n'
  '            }\n'
  '            assert(added_ok(nc, src_g, ips, old(connections)@, receiver_host@, receiver_port));\n'
  '        }',
  'after',
  'opt')]

    FMT1 = (_fmt('&ip'), None, 0)
    u.add(u.fn(CN, 'connect_uplink', sub='conns', ret='r', erase_async=True,
               pre_rewrite=[FMT1, (re.compile(r'\n\s*use rand::RngCore;'), '', 1)],
               post_rewrite=[('binder: &Arc<dyn UplinkBinder>', 'binder: &BinderArc', 1), ('-> Result<(SrtlaConnection, ConnIo)>', '-> Result<(SrtlaConnection, ConnIo), AnyhowError>', 1),
                             ('sock.connect(&remote.into())?;', 'sock.connect_to(&remote)?;', 1), ('Arc::new(BatchUdpSocket::new(sock)?)', 'batch_socket_arc(sock)?', 1),
                             ('rand::rng().next_u64()', 'random_u64()', 1),
                             (re.compile(r'ConnIo \{\s*socket,\s*binder: binder\.clone\(\),\s*remote,\s*\}'), 'conn_io_new(socket, binder, remote)', 1)],
               ensures=[C('C19.conns.connect_uplink.new_link_carries_the_label_reloads_match_on', 'r is Ok ==> r->Ok_0.0.label@ == spec_label(receiver_host@, receiver_port, ip)')]))
    u.add(u.fn(CN, 'create_connections_from_ips', sub='conns', ret='r', erase_async=True,
               pre_rewrite=[('for ip in ips {', 'for ip in ips.iter() {', 1)],
               post_rewrite=[('binder: &Arc<dyn UplinkBinder>', 'binder: &BinderArc', 1), ('ips: &[IpAddr]', 'ips: &Vec<IpAddr>', 1)],
               ensures=[
                   C('C19.conns.create.links_are_created_in_list_order_each_with_the_label_of_its_address', 'exists|idx: Seq<int>| #[trigger] created_ok(r@, idx, ips@, receiver_host@, receiver_port)'),
                   C('C19.conns.create.existing_io_handles_are_untouched_unless_a_new_link_drew_the_same_id',
                     'forall|k: u64| #[trigger] old(conn_io)@.contains_key(k) && !has_id(r@, k) ==> final(conn_io)@.contains_key(k) && final(conn_io)@[k] == old(conn_io)@[k]'),
                   C('C19.conns.create.only_handles_of_new_links_are_registered', 'forall|k: u64| #[trigger] final(conn_io)@.contains_key(k) ==> old(conn_io)@.contains_key(k) || has_id(r@, k)'),
               ],
               loops={0: dict(inv=['ip_nx <= ips.len()', 'created_ok(connections@, idx_g, ips@.subrange(0, ip_nx as int), receiver_host@, receiver_port)',
                                   'forall|k: u64| #[trigger] old(conn_io)@.contains_key(k) && !has_id(connections@, k) ==> conn_io@.contains_key(k) && conn_io@[k] == old(conn_io)@[k]',
                                   'forall|k: u64| #[trigger] conn_io@.contains_key(k) ==> old(conn_io)@.contains_key(k) || has_id(connections@, k)'],
                              dec='ips.len() - ip_nx',
                              after='''    proof {
        assert(ip_nx == ips.len());  // @ob C19.conns.create.every_listed_address_is_attempted
        assert(ips@.subrange(0, ips@.len() as int) =~= ips@);
    }''',
                              begin='        let ghost c_pre = connections@; let ghost io_pre = conn_io@; let ghost idx_pre = idx_g;',
                              end="""        proof {
            let n = ip_nx as int;
            if connections@.len() > c_pre.len() {
                idx_g = idx_pre.push(n - 1);
                assert(connections@ =~= c_pre.push(connections@[c_pre.len() as int]));
            }
            assert forall|j: int| 0 <= j < connections@.len() implies 0 <= #[trigger] idx_g[j] < n && connections@[j].label@ == spec_label(receiver_host@, receiver_port, ips@.subrange(0, n)[idx_g[j]]) by {
                if j < c_pre.len() { assert(ips@.subrange(0, n - 1)[idx_pre[j]] == ips@.subrange(0, n)[idx_pre[j]]); }
            }
            assert forall|k: u64| #[trigger] old(conn_io)@.contains_key(k) && !has_id(connections@, k) implies conn_io@.contains_key(k) && conn_io@[k] == old(conn_io)@[k] by {
                if has_id(c_pre, k) { let j = choose|j: int| 0 <= j < c_pre.len() && (#[trigger] c_pre[j]).conn_id == k; assert(connections@[j].conn_id == k); }
                if connections@.len() > c_pre.len() && connections@[c_pre.len() as int].conn_id == k { assert(has_id(connections@, k)); }
            }
            assert forall|k: u64| #[trigger] conn_io@.contains_key(k) implies old(conn_io)@.contains_key(k) || has_id(connections@, k) by {
                if io_pre.contains_key(k) {
                    if has_id(c_pre, k) { let j = choose|j: int| 0 <= j < c_pre.len() && (#[trigger] c_pre[j]).conn_id == k; assert(connections@[j].conn_id == k); }
                } else { assert(connections@[c_pre.len() as int].conn_id == k); }
            }
        }""")},
               splices=[('@BEGIN', '    let ghost mut idx_g: Seq<int> = Seq::empty();', 'after')]))

    UP = 'src/sender/uplink.rs'
    u.add(u.fn(UP, 'sync_readers', sub='conns',
               pre_rewrite=[('let mut active_ids = HashSet::with_capacity(connections.len());', 'let mut active_ids = IdSet::new();', 1),
                            (lambda t: rules.r19_entry_or_insert_with(t)[0], None, 1), (lambda t: rules.r19_hashmap_retain(t)[0], None, 1),
                            ('conn.label.clone()', 'string_clone(&conn.label)', 1), ('io.socket.clone()', 'io_socket_clone(io)', 1), ('packet_tx.clone()', 'tx_clone(packet_tx)', 1),
                            ('reader.handle.abort();', 'reader_abort(reader);', 1)],
               post_rewrite=[('readers: &mut HashMap<ConnectionId, ReaderHandle>', 'readers: &mut HashMap<u64, ReaderHandle>', 1), ('packet_tx: &UnboundedSender<UplinkPacket>', 'packet_tx: &PacketTx', 1)],
               ensures=[
                   C('C09+C19.conns.sync_readers.no_reader_survives_for_a_link_that_is_not_in_the_list',
                     'forall|k: u64| #[trigger] final(readers)@.contains_key(k) ==> has_conn_id(connections@, connections@.len() as int, k)'),
                   C('C09+C19.conns.sync_readers.every_link_with_an_io_handle_has_a_reader',
                     'forall|j: int| 0 <= j < connections.len() && conn_io@.contains_key((#[trigger] connections[j]).conn_id) ==> final(readers)@.contains_key(connections[j].conn_id)'),
                   C('C09+C19.conns.sync_readers.readers_of_listed_links_are_kept',
                     'forall|k: u64| old(readers)@.contains_key(k) && has_conn_id(connections@, connections@.len() as int, k) ==> #[trigger] final(readers)@.contains_key(k)'),
               ],
               loops={
                   'active_ids.insert(': dict(inv=['conn_nx <= connections.len()',
                                                   'forall|k: u64| #[trigger] active_ids@.contains(k) == has_conn_id(connections@, conn_nx as int, k)',
                                                   'forall|k: u64| old(readers)@.contains_key(k) ==> #[trigger] readers@.contains_key(k)',
                                                   C('C09+C19.conns.sync_readers.every_link_with_an_io_handle_has_a_reader',
                                                     'forall|j: int| 0 <= j < conn_nx && conn_io@.contains_key((#[trigger] connections[j]).conn_id) ==> readers@.contains_key(connections[j].conn_id)')],
                                              dec='connections.len() - conn_nx',
                                              end="""        proof {
            assert forall|k: u64| #[trigger] active_ids@.contains(k) == has_conn_id(connections@, conn_nx as int, k) by {
                if has_conn_id(connections@, conn_nx as int - 1, k) { let j = choose|j: int| 0 <= j < conn_nx - 1 && j < connections@.len() && (#[trigger] connections@[j]).conn_id == k; assert(connections@[j].conn_id == k); }
                if connections@[conn_nx as int - 1].conn_id == k { assert(has_conn_id(connections@, conn_nx as int, k)); }
            }
        }"""),
                   'readers.remove(': dict(inv=['conn_id_nx <= readers_keys.len()',
                                                'forall|k: u64| #[trigger] active_ids@.contains(k) == has_conn_id(connections@, connections@.len() as int, k)',
                                                'forall|k: u64| readers_keys@.contains(k) == #[trigger] r_mid.contains_key(k)', 'forall|a: int, b: int| 0 <= a < b < readers_keys.len() ==> readers_keys[a] != readers_keys[b]',
                                                'forall|k: u64| #[trigger] readers@.contains_key(k) ==> r_mid.contains_key(k)',
                                                C('C09+C19.conns.sync_readers.no_reader_survives_for_a_link_that_is_not_in_the_list',
                                                  'forall|i: int| 0 <= i < conn_id_nx ==> (readers@.contains_key(#[trigger] readers_keys[i]) == active_ids@.contains(readers_keys[i]))'),
                                                'forall|i: int| conn_id_nx <= i < readers_keys.len() ==> readers@.contains_key(#[trigger] readers_keys[i])'],
                                           dec='readers_keys.len() - conn_id_nx',
                                           before='    let ghost r_mid = readers@;',
                                           after="""    proof {
        assert forall|k: u64| old(readers)@.contains_key(k) && has_conn_id(connections@, connections@.len() as int, k) implies #[trigger] readers@.contains_key(k) by {
            assert(r_mid.contains_key(k));
            assert(readers_keys@.contains(k));
            let i = choose|i: int| 0 <= i < readers_keys@.len() && readers_keys@[i] == k;
            assert(readers@.contains_key(readers_keys[i]) == active_ids@.contains(readers_keys[i]));
        }
        assert forall|k: u64| #[trigger] readers@.contains_key(k) implies has_conn_id(connections@, connections@.len() as int, k) by {
            assert(r_mid.contains_key(k));
            assert(readers_keys@.contains(k));
            let i = choose|i: int| 0 <= i < readers_keys@.len() && readers_keys@[i] == k;
            assert(readers@.contains_key(readers_keys[i]) == active_ids@.contains(readers_keys[i]));
        }
    }"""),
               }))
    u.add(u.fn(UP, 'spawn_reader', sub='conns', qual='spawn_reader_task', erase_async=True, attrs='#[verifier::exec_allows_no_decreases_clause]\n',
               pre_rewrite=[(_task_body, None, 1),
                            (re.compile(r'for \(_addr, data\) in recv_buffer\.iter\(\) \{'), 'let batch_v = recv_buf_datagrams(&recv_buffer);\n                    for data in batch_v.iter() {', 1)],
               post_rewrite=[('conn_id: ConnectionId', 'conn_id: u64', 1), ('socket: Arc<BatchUdpSocket>', 'socket: SockArc', 1), ('packet_tx: UnboundedSender<UplinkPacket>', 'packet_tx: PacketTx', 1),
                             ('socket.recv_batch(&mut recv_buffer)', 'sock_recv_batch(&socket, &mut recv_buffer)', 1),
                             ('SmallVec::new()', 'Vec::new()', None), ('vec_from_slice(data)', 'vec_from_slice(data.as_slice())', None),
                             (_send, None, 1),
                             (re.compile(r'tokio::time::sleep\(Duration::from_millis\((\d+)\)\)'), r'sleep_ms(\1)', None)],
               loops={
                   'vec_from_slice(': dict(inv=['data_nx <= batch_v.len()',
                                              C('C09.reader.every_non_empty_datagram_of_a_batch_is_relayed_unchanged_in_order', 'told == told_batch.add(relayed(batch_v@, data_nx as int))')],
                                           dec='batch_v.len() - data_nx',
                                           before='                    let ghost told_batch = told;',
                                           after='''                    proof {
                        assert(told == told_batch.add(relayed(batch_v@, batch_v@.len() as int)));  // @ob C09.reader.every_non_empty_datagram_of_a_batch_is_relayed_unchanged_in_order
                    }'''),
                   'sock_recv_batch(': dict(inv=[]),
               },
               splices=[('@BEGIN', '        let ghost mut told: Seq<Seq<u8>> = Seq::empty();', 'after')]))
    u.add(u.fn(UP, 'restart_reader_for', sub='conns',
               pre_rewrite=[('conn.label.clone()', 'string_clone(&conn.label)', 1), ('packet_tx.clone()', 'tx_clone(packet_tx)', 1),
                            (re.compile(r'readers\.remove\(&([\w\.]+)\)'), r'readers_remove(readers, \1)', None),
                            (re.compile(r'\b(\w+)\.handle\.abort\(\)'), r'reader_drop(reader_aborted(\1))', None),
                            (_reader_scope_end, None, None),
                            (re.compile(r'readers\.insert\(\s*'), 'readers_install(readers, ', None)],
               post_rewrite=[('readers: &mut HashMap<ConnectionId, ReaderHandle>', 'readers: &mut HashMap<u64, ReaderHandle>', 1), ('packet_tx: &UnboundedSender<UplinkPacket>', 'packet_tx: &PacketTx', 1),
                             ('socket: Arc<BatchUdpSocket>', 'socket: SockArc', 1)],
               ensures=[C('C08+C19.conns.restart_reader_for.the_link_has_a_reader_afterwards_and_other_links_keep_theirs',
                          'final(readers)@.contains_key(conn.conn_id) && forall|k: u64| k != conn.conn_id ==> (#[trigger] final(readers)@.contains_key(k) == old(readers)@.contains_key(k))')]))
    def tag_lines(text, needle, tag):
        # the step proofs restate a loop clause for the new iteration: a failure there IS that clause failing
        return '\n'.join(ln + '  // @ob ' + tag if needle in ln and '@ob' not in ln else ln for ln in text.split('\n'))
    PROOFS['L5_end'] = tag_lines(PROOFS['L5_end'], 'assert forall', 'C05+C19.conns.apply.purge_removes_io_handle_and_nak_records_of_exactly_the_listed_ids')
    PROOFS['L3_end'] = tag_lines(PROOFS['L3_end'], 'assert forall', 'C19.conns.apply.purge_list_is_exactly_the_ids_of_the_unlisted_links')
    u.add(u.fn(CN, 'apply_connection_changes', sub='conns', erase_async=True,
               pre_rewrite=[FMT,
                            (lambda t: rules.r19_collect_set(t)[0], None, 1), (lambda t: rules.r19_filter_map_collect(t)[0], None, 1),
                            (lambda t: rules.r19_retain(t)[0], None, 1), (lambda t: rules.r19_copied_filters_collect(t)[0], None, 1),
                            ('for conn_id in removed_conn_ids {', 'for &conn_id in removed_conn_ids.iter() {', 1)],
               post_rewrite=[('HashSet<String>', 'LabelSet', None), ('HashSet::<IpAddr>::new()', 'IpSet::new()', 1), ('c.label.clone()', 'string_clone(&c.label)', 1),
                             ('binder: &Arc<dyn UplinkBinder>', 'binder: &BinderArc', 1)],
               requires=['distinct_conn_ids(old(connections)@)'],
               ensures=[
                   C('C19.conns.apply.survivors_are_exactly_the_still_listed_links_unchanged_and_in_order',
                     """final(connections)@.len() >= keep_desired(old(connections)@, %(H)s).len()
            && final(connections)@.subrange(0, keep_desired(old(connections)@, %(H)s).len() as int) =~= keep_desired(old(connections)@, %(H)s)""" % dict(H=H)),
                   C('C05+C19.conns.apply.removed_links_lose_their_io_handle_and_nak_records_and_nothing_else_is_purged',
                     """exists|ids: Seq<u64>| #[trigger] removed_ok(old(connections)@, old(connections)@.len() as int, ids, %(H)s)
            && tracker_purged(old(seq_tracker).entries@, final(seq_tracker).entries@, ids)
            && io_purged(old(conn_io)@, final(conn_io)@, ids, final(connections)@.subrange(keep_desired(old(connections)@, %(H)s).len() as int, final(connections)@.len() as int))""" % dict(H=H)),
                   C('C05+C19.conns.apply.surviving_links_keep_their_io_handle_and_nak_records',
                     """forall|i: int| 0 <= i < old(connections)@.len() && desired(%(H)s, (#[trigger] old(connections)@[i]).label@) ==>
                (old(conn_io)@.contains_key(old(connections)@[i].conn_id)
                    && !has_id(final(connections)@.subrange(keep_desired(old(connections)@, %(H)s).len() as int, final(connections)@.len() as int), old(connections)@[i].conn_id)
                    ==> final(conn_io)@.contains_key(old(connections)@[i].conn_id)
                    && final(conn_io)@[old(connections)@[i].conn_id] == old(conn_io)@[old(connections)@[i].conn_id])
                && (forall|s: int| 0 <= s < old(seq_tracker).entries@.len() && old(seq_tracker).entries@[s].conn_id == old(connections)@[i].conn_id
                    ==> #[trigger] final(seq_tracker).entries@[s] == old(seq_tracker).entries@[s])""" % dict(H=H)),
                   C('C19.conns.apply.every_added_link_is_for_a_listed_address_without_a_link_and_no_address_is_used_twice',
                     """exists|src: Seq<int>| #[trigger] added_ok(final(connections)@.subrange(keep_desired(old(connections)@, %(H)s).len() as int, final(connections)@.len() as int),
                src, new_ips@, old(connections)@, receiver_host@, receiver_port)""" % dict(H=H)),
                   C('C11+C19.conns.apply.routing_choice_is_forgotten_exactly_when_a_link_was_removed',
                     """(keep_desired(old(connections)@, %(H)s).len() != old(connections)@.len() ==> *final(last_selected_idx) is None)
            && (keep_desired(old(connections)@, %(H)s).len() == old(connections)@.len() ==> *final(last_selected_idx) == *old(last_selected_idx))""" % dict(H=H)),
               ],
               loops={
                   'current_labels.insert(': dict(inv=['current_labels_nx <= connections.len()', 'connections@ == old(connections)@',
                                                       'forall|l: Seq<char>| #[trigger] current_labels@.contains(l) == has_label(connections@, current_labels_nx as int, l)'],
                                                  dec='connections.len() - current_labels_nx', end=PROOFS['L1_end'], after=PROOFS['L1_after']),
                   'desired_labels.insert(': dict(inv=['desired_labels_nx <= new_ips.len()',
                                                       'forall|l: Seq<char>| #[trigger] desired_labels@.contains(l) == desired_n(%s, desired_labels_nx as int, l)' % H],
                                                  dec='new_ips.len() - desired_labels_nx', end=PROOFS['L2_end']),
                   'removed_conn_ids.push(': dict(inv=['removed_conn_ids_nx <= connections.len()', 'connections@ == old(connections)@', 'forall|l: Seq<char>| #[trigger] desired_labels@.contains(l) == desired_n(%s, new_ips@.len() as int, l)' % H,
                                                       C('C19.conns.apply.purge_list_is_exactly_the_ids_of_the_unlisted_links', 'removed_ok(connections@, removed_conn_ids_nx as int, removed_conn_ids@, %s)' % H)],
                                                  dec='connections.len() - removed_conn_ids_nx', begin=PROOFS['L3_begin'], end=PROOFS['L3_end']),
                   'connections.remove(': dict(inv=['0 <= connections_seen <= connections_orig.len()', 'connections_rx <= connections_seen', 'forall|l: Seq<char>| #[trigger] desired_labels@.contains(l) == desired_n(%s, new_ips@.len() as int, l)' % H,
                                                    'connections.len() == connections_rx + (connections_orig.len() - connections_seen)',
                                                    'connections@.subrange(0, connections_rx as int) =~= keep_desired(connections_orig.subrange(0, connections_seen), %s)' % H,
                                                    'connections@.subrange(connections_rx as int, connections.len() as int) =~= connections_orig.subrange(connections_seen, connections_orig.len() as int)'],
                                               dec='connections_orig.len() - connections_seen', after=PROOFS['RET_after']),
                   'removed_conn_ids[': dict(inv=['conn_id_nx <= removed_conn_ids.len()',
                                                               C('C05+C19.conns.apply.purge_removes_io_handle_and_nak_records_of_exactly_the_listed_ids',
                                                                 'purged(old(conn_io)@, conn_io@, old(seq_tracker).entries@, seq_tracker.entries@, removed_conn_ids@, conn_id_nx as int)')],
                                                          dec='removed_conn_ids.len() - conn_id_nx', begin=PROOFS['L5_begin'], end=PROOFS['L5_end']),
                   'new_ips_needed.push(': dict(inv=['new_ips_needed_nx <= new_ips.len()', 'forall|l: Seq<char>| #[trigger] current_labels@.contains(l) == has_label(old(connections)@, old(connections)@.len() as int, l)',
                                                     C('C19.conns.apply.addresses_to_add_are_listed_new_and_pairwise_different',
                                                       'needed_ok(new_ips_needed@, new_ips@, new_ips_needed_nx as int, seen@, old(connections)@, receiver_host@, receiver_port)')],
                                                dec='new_ips.len() - new_ips_needed_nx', before=PROOFS['DED_before'], after=PROOFS['DED_after']),
               },
               splices=SPLICES))
    return u
