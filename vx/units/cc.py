"""Unit `cc` (C16): the per-link congestion controller LinkCongestionState (crates/srtla-core/src/selection/link_cc.rs) around `tick`:
the loss window (record_loss / observe_traffic / evict_expired / loss_permille), the back-off efficacy verdict, the climb-mode choice,
the RTT sample filter of record_rtt, and `tick` itself.

Floats stay UNINTERPRETED (prelude.FLOAT): what is proved is the STRUCTURE of the computation -- which constants and which operations on
which operands decide the next target (x850/1000 back-off never below the delivered rate, x750/1000 once on drain entry, growth step of at
most 60 permille capped at twice the measured rate, final clamp to [100 kbit/s, 200 Mbit/s]) and which fields each helper may write.  The
IEEE meaning of those operations (850/1000 of x is 0.85 x up to rounding) is what the Kani harnesses (kx/src/cc.rs) decide on the same code.
`update_loss_ewma` (exp) is a trusted stub here whose frame is the one proved by kx::cc_loss_latch_hysteresis.
Rewrites: `while let Some(x) = E { B }` -> `loop { match E { Some(x) => { B } None => { break; } } }` (R23), numeric `as` casts to/from f64 ->
cast stubs, `==`/`!=` against a unit enum variant -> `matches!`."""
import re

from gen import Unit, C, impl_block
import prelude
import rules

LC = 'crates/srtla-core/src/selection/link_cc.rs'

STUBS = r'''
// exec `a == b` on f64 returns a.eq_spec(b) (the comparison is a deterministic function of its operands; its IEEE meaning stays uninterpreted)
#[verifier::external_body] pub broadcast proof fn axiom_f64_obeys_eq() ensures #[trigger] <f64 as PartialEqSpec<f64>>::obeys_eq_spec() {}
// ---------- casts (values uninterpreted; Kani decides the arithmetic on the real code) ----------
pub uninterp spec fn u64_to_f64(x: u64) -> f64;
pub uninterp spec fn u32_to_f64(x: u32) -> f64;
pub uninterp spec fn spec_f64_to_u64(x: f64) -> u64;
#[verifier::external_body] pub fn cast_u64_f64(x: u64) -> (r: f64) ensures r == u64_to_f64(x) { x as f64 }
#[verifier::external_body] pub fn cast_u32_f64(x: u32) -> (r: f64) ensures r == u32_to_f64(x) { x as f64 }
#[verifier::external_body] pub fn cast_f64_u64(x: f64) -> (r: u64) ensures r == spec_f64_to_u64(x) { x as u64 }
pub open spec fn clamp_u64(x: u64, lo: u64, hi: u64) -> u64 { if x < lo { lo } else if x > hi { hi } else { x } }
#[verifier::external_body] pub fn u64_clamp(x: u64, lo: u64, hi: u64) -> (r: u64) requires lo <= hi ensures r == clamp_u64(x, lo, hi) { x.clamp(lo, hi) }
pub open spec fn sat_add_u32(a: u32, b: u32) -> u32 { if a + b > u32::MAX { u32::MAX } else { (a + b) as u32 } }
pub open spec fn sat_sub_u32(a: u32, b: u32) -> u32 { if a < b { 0u32 } else { (a - b) as u32 } }
pub open spec fn sat_sub_u64(a: u64, b: u64) -> u64 { if a < b { 0u64 } else { (a - b) as u64 } }
#[verifier::external_body] pub fn u32_saturating_add(a: u32, b: u32) -> (r: u32) ensures r == sat_add_u32(a, b) { a.saturating_add(b) }
#[verifier::external_body] pub fn u32_saturating_sub(a: u32, b: u32) -> (r: u32) ensures r == sat_sub_u32(a, b) { a.saturating_sub(b) }
#[verifier::external_body] pub fn u64_saturating_sub(a: u64, b: u64) -> (r: u64) ensures r == sat_sub_u64(a, b) { a.saturating_sub(b) }
#[verifier::external_body] pub fn u64_saturating_mul(a: u64, b: u64) -> (r: u64) ensures r == (if a * b > u64::MAX { u64::MAX } else { (a * b) as u64 }) { a.saturating_mul(b) }
#[verifier::external_body] pub fn u64_max(a: u64, b: u64) -> (r: u64) ensures r == (if a >= b { a } else { b }) { a.max(b) }
#[verifier::external_body] pub fn i32_max0(a: i32) -> (r: i32) ensures r == (if a > 0 { a } else { 0i32 }) { a.max(0) }
#[verifier::external_body] pub fn u64_min_to_u32(a: u64) -> (r: u32) ensures r == (if a > u32::MAX { u32::MAX } else { a as u32 }) { a.min(u32::MAX as u64) as u32 }
#[verifier::external_body] pub fn u32_max(a: u32, b: u32) -> (r: u32) ensures r == (if a >= b { a } else { b }) { a.max(b) }
#[verifier::external_body] pub fn i32_saturating_sub(a: i32, b: i32) -> (r: i32) ensures r == sat_i32(a - b) { a.saturating_sub(b) }
'''

SPEC = r'''
// ---------- the loss window ----------
// evicting from the front while the oldest sample is older than the cutoff; every evicted sample takes its own contribution out of the
// two window aggregates (saturating, as the counters themselves are)
pub open spec fn evict_spec(s: Seq<LossSample>, ws: u32, wl: u32, cutoff: u64) -> (Seq<LossSample>, u32, u32)
    decreases s.len()
{
    if s.len() > 0 && s[0].ts_ms < cutoff { evict_spec(s.drop_first(), sat_sub_u32(ws, s[0].sent), sat_sub_u32(wl, s[0].lost), cutoff) } else { (s, ws, wl) }
}
pub open spec fn spec_loss_pm(ws: u32, wl: u32) -> u32 {
    if ws == 0 { 0u32 } else { let p = (wl as int * 1000) / (ws as int); if p > 1_000_000 { 1_000_000u32 } else { p as u32 } }
}
impl LinkCongestionState {
    // everything but the loss window
    pub open spec fn same_except_window(&self, o: &LinkCongestionState) -> bool {
        &&& self.state == o.state && self.climb_mode == o.climb_mode && self.target_bps == o.target_bps
        &&& self.rtt_ewma_ms == o.rtt_ewma_ms && self.rtt_var_ms == o.rtt_var_ms && self.rtt_min_ms == o.rtt_min_ms
        &&& self.rtt_min_stamp_ms == o.rtt_min_stamp_ms && self.last_rtt_update_ms == o.last_rtt_update_ms
        &&& self.fast_recovery_ticks == o.fast_recovery_ticks
        &&& self.prev_bytes_sent_total == o.prev_bytes_sent_total && self.prev_nak_total == o.prev_nak_total && self.traffic_baseline_set == o.traffic_baseline_set
        &&& self.loss_ewma == o.loss_ewma && self.loss_ewma_last_ms == o.loss_ewma_last_ms && self.loss_high_since_ms == o.loss_high_since_ms && self.loss_degraded == o.loss_degraded
        &&& self.backoff_ticks == o.backoff_ticks && self.backoff_entry_loss_pm == o.backoff_entry_loss_pm
        &&& self.loss_uncongestive == o.loss_uncongestive && self.uncongestive_ticks == o.uncongestive_ticks
    }
    pub open spec fn window(&self) -> (Seq<LossSample>, u32, u32) { (self.loss_samples@, self.window_sent, self.window_lost) }
    // everything but the loss window and the cumulative-counter baseline of observe_traffic
    pub open spec fn same_except_window_traffic(&self, o: &LinkCongestionState) -> bool {
        &&& self.state == o.state && self.climb_mode == o.climb_mode && self.target_bps == o.target_bps
        &&& self.rtt_ewma_ms == o.rtt_ewma_ms && self.rtt_var_ms == o.rtt_var_ms && self.rtt_min_ms == o.rtt_min_ms
        &&& self.rtt_min_stamp_ms == o.rtt_min_stamp_ms && self.last_rtt_update_ms == o.last_rtt_update_ms
        &&& self.fast_recovery_ticks == o.fast_recovery_ticks
        &&& self.loss_ewma == o.loss_ewma && self.loss_ewma_last_ms == o.loss_ewma_last_ms && self.loss_high_since_ms == o.loss_high_since_ms && self.loss_degraded == o.loss_degraded
        &&& self.backoff_ticks == o.backoff_ticks && self.backoff_entry_loss_pm == o.backoff_entry_loss_pm
        &&& self.loss_uncongestive == o.loss_uncongestive && self.uncongestive_ticks == o.uncongestive_ticks
    }
    // everything but the four fields of the back-off efficacy verdict
    pub open spec fn same_except_eff(&self, o: &LinkCongestionState) -> bool {
        &&& self.state == o.state && self.climb_mode == o.climb_mode && self.target_bps == o.target_bps
        &&& self.rtt_ewma_ms == o.rtt_ewma_ms && self.rtt_var_ms == o.rtt_var_ms && self.rtt_min_ms == o.rtt_min_ms
        &&& self.rtt_min_stamp_ms == o.rtt_min_stamp_ms && self.last_rtt_update_ms == o.last_rtt_update_ms
        &&& self.fast_recovery_ticks == o.fast_recovery_ticks && self.window() == o.window()
        &&& self.prev_bytes_sent_total == o.prev_bytes_sent_total && self.prev_nak_total == o.prev_nak_total && self.traffic_baseline_set == o.traffic_baseline_set
        &&& self.loss_ewma == o.loss_ewma && self.loss_ewma_last_ms == o.loss_ewma_last_ms && self.loss_high_since_ms == o.loss_high_since_ms && self.loss_degraded == o.loss_degraded
    }
    // everything but the RTT estimator fields
    pub open spec fn same_except_rtt(&self, o: &LinkCongestionState) -> bool {
        &&& self.state == o.state && self.climb_mode == o.climb_mode && self.target_bps == o.target_bps
        &&& self.fast_recovery_ticks == o.fast_recovery_ticks && self.window() == o.window()
        &&& self.prev_bytes_sent_total == o.prev_bytes_sent_total && self.prev_nak_total == o.prev_nak_total && self.traffic_baseline_set == o.traffic_baseline_set
        &&& self.loss_ewma == o.loss_ewma && self.loss_ewma_last_ms == o.loss_ewma_last_ms && self.loss_high_since_ms == o.loss_high_since_ms && self.loss_degraded == o.loss_degraded
        &&& self.backoff_ticks == o.backoff_ticks && self.backoff_entry_loss_pm == o.backoff_entry_loss_pm
        &&& self.loss_uncongestive == o.loss_uncongestive && self.uncongestive_ticks == o.uncongestive_ticks
    }
    // the counters of the back-off efficacy verdict stay small (so `+= 1` cannot overflow): the verdict is re-armed after 3 ticks, the held
    // verdict after 30
    pub open spec fn eff_wf(&self) -> bool {
        (self.backoff_ticks < BACKOFF_EFFICACY_TICKS || (self.backoff_ticks == BACKOFF_EFFICACY_TICKS && self.loss_uncongestive)) && self.uncongestive_ticks < LOSS_UNCONGESTIVE_RETEST_TICKS
    }
}

// ---------- tick ----------
pub uninterp spec fn spec_latch_step(ewma: f64, last_ms: u64, high_since: u64, degraded: bool, loss_pm: u32, now: u64) -> (f64, u64, u64, bool);
impl LinkCongestionState {
    pub open spec fn latch(&self) -> (f64, u64, u64, bool) { (self.loss_ewma, self.loss_ewma_last_ms, self.loss_high_since_ms, self.loss_degraded) }
    pub open spec fn same_except_latch(&self, o: &LinkCongestionState) -> bool {
        &&& self.state == o.state && self.climb_mode == o.climb_mode && self.target_bps == o.target_bps
        &&& self.rtt_ewma_ms == o.rtt_ewma_ms && self.rtt_var_ms == o.rtt_var_ms && self.rtt_min_ms == o.rtt_min_ms
        &&& self.rtt_min_stamp_ms == o.rtt_min_stamp_ms && self.last_rtt_update_ms == o.last_rtt_update_ms
        &&& self.fast_recovery_ticks == o.fast_recovery_ticks && self.window() == o.window()
        &&& self.prev_bytes_sent_total == o.prev_bytes_sent_total && self.prev_nak_total == o.prev_nak_total && self.traffic_baseline_set == o.traffic_baseline_set
        &&& self.backoff_ticks == o.backoff_ticks && self.backoff_entry_loss_pm == o.backoff_entry_loss_pm
        &&& self.loss_uncongestive == o.loss_uncongestive && self.uncongestive_ticks == o.uncongestive_ticks
    }
    // exp() and the EWMA arithmetic: Kani (kx::cc_loss_latch_hysteresis proves the hysteresis AND this frame on the real function)
    #[verifier::external_body]
    pub fn update_loss_ewma(&mut self, loss_pm: u32, now_ms: u64)
        ensures final(self).same_except_latch(old(self)),
            final(self).latch() == spec_latch_step(old(self).loss_ewma, old(self).loss_ewma_last_ms, old(self).loss_high_since_ms, old(self).loss_degraded, loss_pm, now_ms),
    { unimplemented!() }
    // no RTT sample yet (the estimator is still 0 or unusable)
    pub open spec fn no_rtt(&self) -> bool { !spec_f64_is_finite(self.rtt_ewma_ms) || self.rtt_ewma_ms.eq_spec(&0.0f64) }
}
// one throughput sample is trusted up to 4 x the running estimate (at least the 1 Mbit/s initial estimate)
pub open spec fn spec_sane_observed(target: u64, observed: u64) -> u64 {
    spec_f64_to_u64(spec_f64_min(u64_to_f64(observed), (4.0f64).mul_spec(u64_to_f64(if target >= 1_000_000 { target } else { 1_000_000u64 }))))
}
// a target sitting on the floor is (re)seeded from measured throughput, at least 1 Mbit/s
pub open spec fn spec_seeded(target: u64, sane: u64) -> u64 {
    if target == 100_000 { clamp_u64(if sane >= 1_000_000 { sane } else { 1_000_000u64 }, 100_000, 200_000_000) } else { target }
}
pub open spec fn spec_step_pm(m: ClimbMode) -> u32 { match m { ClimbMode::Normal => 20u32, ClimbMode::Hai => 60u32, ClimbMode::FastRecovery => 40u32 } }
// THE rule of C16: what the next target is, by state -- x850/1000 on a loss back-off but never below the delivered rate and never above the
// old target; x750/1000 once on entry to a drain; growth by the step of the climb mode (20 / 60 / 40 permille: at most 6 %) capped at twice the
// measured rate, and none without measured traffic; unchanged otherwise
pub open spec fn spec_next_target(ns: CcState, ps: CcState, mode: ClimbMode, prev: f64, sane: u64) -> f64 {
    match ns {
        CcState::Bootstrap => prev,
        CcState::Holding => prev,
        CcState::Climbing => if sane > 0 {
                spec_f64_max(prev, u64_to_f64(100_000u64)).add_spec(
                    spec_f64_max(spec_f64_min(prev.mul_spec(u32_to_f64(spec_step_pm(mode))).div_spec(1000.0f64), u64_to_f64(sane).mul_spec(2.0f64).sub_spec(prev)), 0.0f64))
            } else { prev },
        CcState::BackingOff => spec_f64_max(prev.mul_spec(u32_to_f64(850u32)).div_spec(1000.0f64), spec_f64_min(u64_to_f64(sane), prev)),
        CcState::Drain => if !(ps is Drain) { prev.mul_spec(u32_to_f64(750u32)).div_spec(1000.0f64) } else { prev },
    }
}
'''


def _while_let(text):
    """R23: `while let Some(X) = E { BODY }`  ->  `loop { match E { Some(X) => { BODY } None => { break; } } }`  (same control flow: the loop
    ends when E is None; `break` / `continue` inside BODY keep their meaning)."""
    m = re.search(r'while let Some\((\w+)\) = ([^{]+?) \{', text)
    if not m:
        return text
    ob = m.end() - 1
    cb = rules.match_bracket(text, ob, '{', '}')
    body = text[ob:cb + 1]
    return text[:m.start()] + 'loop {\n            match %s {\n                Some(%s) => %s\n                None => { break; }\n            }\n        }' % (m.group(2).strip(), m.group(1), body) + text[cb + 1:]


def _enum_eq(text):
    t = re.sub(r'(\b[\w\.]+) != (CcState::\w+)\b', r'!matches!(\1, \2)', text)
    t = re.sub(r'(\b[\w\.]+) == (CcState::\w+)\b', r'matches!(\1, \2)', t)
    return t


SAT = [(re.compile(r'self\.window_sent\.saturating_add\((\w+)\)'), r'u32_saturating_add(self.window_sent, \1)', None),
       (re.compile(r'self\.window_lost\.saturating_add\((\w+)\)'), r'u32_saturating_add(self.window_lost, \1)', None),
       (re.compile(r'self\.window_sent\.saturating_sub\(([\w\.]+)\)'), r'u32_saturating_sub(self.window_sent, \1)', None),
       (re.compile(r'self\.window_lost\.saturating_sub\(([\w\.]+)\)'), r'u32_saturating_sub(self.window_lost, \1)', None),
       (re.compile(r'now_ms\.saturating_sub\(([\w\.]+)\)'), r'u64_saturating_sub(now_ms, \1)', None)]


def build():
    u = Unit('cc')
    u.use('use vstd::std_specs::ops::*;')
    u.use('use vstd::std_specs::cmp::*;')
    u.add(prelude.INT)
    u.add(prelude.FLOAT)
    u.add(u.consts(LC))
    u.add(u.item(LC, 'enum', 'CcState'))
    u.add(u.item(LC, 'enum', 'ClimbMode'))
    u.add(u.item(LC, 'struct', 'LossSample'))
    u.add(u.item(LC, 'struct', 'LinkCongestionState'))
    u.add(STUBS)
    u.add(SPEC)
    fns = []
    fns.append(u.fn(LC, 'evict_expired', impl='LinkCongestionState', sub='cc', post_rewrite=[(_while_let, None, 1)] + SAT,
                    ensures=[
                        C('C16.cc.evict_expired.every_expired_sample_leaves_with_its_own_contribution_and_nothing_else_changes',
                          'final(self).window() == evict_spec(old(self).loss_samples@, old(self).window_sent, old(self).window_lost, sat_sub_u64(now_ms, LOSS_WINDOW_MS)) && final(self).same_except_window(old(self))'),
                    ],
                    loops={0: dict(inv=['self.same_except_window(old(self))', 'cutoff == sat_sub_u64(now_ms, LOSS_WINDOW_MS)',
                                        'evict_spec(self.loss_samples@, self.window_sent, self.window_lost, cutoff) == evict_spec(old(self).loss_samples@, old(self).window_sent, old(self).window_lost, cutoff)'],
                                   ens=['self.loss_samples@.len() == 0 || !(self.loss_samples@[0].ts_ms < cutoff)'],
                                   dec='self.loss_samples@.len()')}))
    fns.append(u.fn(LC, 'loss_permille', impl='LinkCongestionState', sub='cc', ret='r',
                    post_rewrite=[('(self.window_lost as u64).saturating_mul(1_000)', 'u64_saturating_mul(self.window_lost as u64, 1_000)', 1),
                                  ('permille.min(1_000_000) as u32', '(if permille < 1_000_000 { permille } else { 1_000_000 }) as u32', 1)],
                    ensures=[C('C16.cc.loss_permille.lost_over_sent_in_permille', 'r == spec_loss_pm(self.window_sent, self.window_lost)')]))
    SAMPLE = 'LossSample { ts_ms: now_ms, lost: lost, sent: sent }'
    fns.append(u.fn(LC, 'record_loss', impl='LinkCongestionState', sub='cc', post_rewrite=SAT,
                    ensures=[C('C16.cc.record_loss.the_sample_enters_the_window_with_its_contribution',
                               'final(self).window() == evict_spec(old(self).loss_samples@.push(%s), sat_add_u32(old(self).window_sent, sent), sat_add_u32(old(self).window_lost, lost), sat_sub_u64(now_ms, LOSS_WINDOW_MS))'
                               ' && final(self).same_except_window(old(self))' % SAMPLE)]))
    fns.append(u.fn(LC, 'observe_traffic', impl='LinkCongestionState', sub='cc',
                    post_rewrite=[('bytes_sent_total.saturating_sub(self.prev_bytes_sent_total)', 'u64_saturating_sub(bytes_sent_total, self.prev_bytes_sent_total)', 1),
                                  ('nak_total.saturating_sub(self.prev_nak_total).max(0)', 'i32_max0(i32_saturating_sub(nak_total, self.prev_nak_total))', 1),
                                  ('(delta_bytes / ASSUMED_SRT_PAYLOAD_BYTES).min(u32::MAX as u64) as u32', 'u64_min_to_u32(delta_bytes / ASSUMED_SRT_PAYLOAD_BYTES)', 1),
                                  ('sent_pkts.max(if lost_pkts > 0 { 1 } else { 0 })', 'u32_max(sent_pkts, if lost_pkts > 0 { 1 } else { 0 })', None)],
                    ensures=[
                        C('C16.cc.observe_traffic.first_call_only_sets_the_baseline', '!old(self).traffic_baseline_set ==> final(self).window() == old(self).window()'),
                        C('C16.cc.observe_traffic.a_quiet_tick_adds_no_sample',
                          'old(self).traffic_baseline_set && bytes_sent_total <= old(self).prev_bytes_sent_total && nak_total <= old(self).prev_nak_total ==> final(self).window() == old(self).window()'),
                        C('C16.cc.observe_traffic.the_deltas_since_the_previous_call_enter_the_window',
                          '''old(self).traffic_baseline_set && !(bytes_sent_total <= old(self).prev_bytes_sent_total && nak_total <= old(self).prev_nak_total) ==> ({
                let db = sat_sub_u64(bytes_sent_total, old(self).prev_bytes_sent_total);
                let lost = (if sat_i32(nak_total - old(self).prev_nak_total) > 0 { sat_i32(nak_total - old(self).prev_nak_total) } else { 0i32 }) as u32;
                let s0 = if db / 1316 > u32::MAX { u32::MAX } else { (db / 1316) as u32 };
                let sent = if lost > 0 && s0 == 0 { 1u32 } else { s0 };
                final(self).window() == evict_spec(old(self).loss_samples@.push(LossSample { ts_ms: now_ms, lost: lost, sent: sent }),
                    sat_add_u32(old(self).window_sent, sent), sat_add_u32(old(self).window_lost, lost), sat_sub_u64(now_ms, LOSS_WINDOW_MS)) })'''),
                        C('C16.cc.observe_traffic.baseline_follows_the_counters_and_nothing_else_changes',
                          'final(self).traffic_baseline_set && final(self).prev_bytes_sent_total == bytes_sent_total && final(self).prev_nak_total == nak_total && final(self).same_except_window_traffic(old(self))'),
                    ]))
    fns.append(u.fn(LC, 'update_backoff_efficacy', impl='LinkCongestionState', sub='cc', post_rewrite=[(_enum_eq, None, 1)],
                    requires=['old(self).eff_wf()'],
                    ensures=[
                        C('C16.cc.update_backoff_efficacy.writes_only_the_efficacy_verdict', 'final(self).same_except_eff(old(self))'),
                        'final(self).eff_wf()',
                        C('C16.cc.update_backoff_efficacy.the_verdict_is_forgotten_when_the_loss_regime_ends',
                          '!loss_high ==> final(self).backoff_ticks == 0 && final(self).backoff_entry_loss_pm == 0 && !final(self).loss_uncongestive && final(self).uncongestive_ticks == 0'),
                        C('C16.cc.update_backoff_efficacy.loss_is_ruled_not_ours_only_after_three_back_off_ticks_that_did_not_improve_it',
                          '''!old(self).loss_uncongestive && final(self).loss_uncongestive ==> loss_high && old(self).state is BackingOff && old(self).backoff_ticks + 1 >= BACKOFF_EFFICACY_TICKS
                && !((loss_pm as int) * 1000 < (old(self).backoff_entry_loss_pm as int) * 800)'''),
                        C('C16.cc.update_backoff_efficacy.a_held_verdict_expires_only_on_its_timer_or_with_the_loss_regime',
                          'old(self).loss_uncongestive && !final(self).loss_uncongestive ==> !loss_high || old(self).uncongestive_ticks + 1 >= LOSS_UNCONGESTIVE_RETEST_TICKS'),
                    ]))
    fns.append(u.fn(LC, 'pick_climb_mode', impl='LinkCongestionState', sub='cc', ret='r',
                    ensures=[C('C16.cc.pick_climb_mode.fast_recovery_exactly_while_its_budget_lasts', '(r is FastRecovery) == (self.fast_recovery_ticks > 0)')]))
    fns.append(u.fn(LC, 'update_rtt_min', impl='LinkCongestionState', sub='cc', post_rewrite=SAT,
                    ensures=[C('C16.cc.update_rtt_min.writes_only_the_rtt_floor', '''final(self).same_except_rtt(old(self)) && final(self).rtt_ewma_ms == old(self).rtt_ewma_ms
            && final(self).rtt_var_ms == old(self).rtt_var_ms && final(self).last_rtt_update_ms == old(self).last_rtt_update_ms && final(self).loss_samples@ == old(self).loss_samples@''')]))
    fns.append(u.fn(LC, 'record_rtt', impl='LinkCongestionState', sub='cc', post_rewrite=SAT, splices=[('@BEGIN', '        broadcast use axiom_f64_obeys_eq;', 'after')],
                    ensures=[
                        C('C16.cc.record_rtt.a_sample_that_is_not_a_positive_finite_number_changes_nothing',
                          '!spec_f64_is_finite(rtt_ms) || fle(rtt_ms, 0.0f64) ==> *final(self) == *old(self)'),
                        C('C16.cc.record_rtt.writes_only_the_rtt_estimator', 'final(self).same_except_rtt(old(self)) && final(self).loss_samples@ == old(self).loss_samples@'),
                    ]))
    EV = 'evict_spec(old(self).loss_samples@, old(self).window_sent, old(self).window_lost, sat_sub_u64(now_ms, LOSS_WINDOW_MS))'
    SANE = 'spec_sane_observed(old(self).target_bps, observed_bps)'
    PREV = 'u64_to_f64(spec_seeded(old(self).target_bps, %s))' % SANE
    fns.append(u.fn(LC, 'tick', impl='LinkCongestionState', sub='cc',
                    post_rewrite=[(_enum_eq, None, 1),
                                  ('self.target_bps.max(INITIAL_TARGET_BPS) as f64', 'cast_u64_f64(u64_max(self.target_bps, INITIAL_TARGET_BPS))', 1),
                                  ('(observed_bps as f64).min(CC_OUTLIER_FACTOR * baseline) as u64', 'cast_f64_u64(cast_u64_f64(observed_bps).min(CC_OUTLIER_FACTOR * baseline))', 1),
                                  ('sane_observed.max(INITIAL_TARGET_BPS)', 'u64_max(sane_observed, INITIAL_TARGET_BPS)', 1),
                                  ('seed.clamp(MIN_TARGET_BPS, MAX_TARGET_BPS)', 'u64_clamp(seed, MIN_TARGET_BPS, MAX_TARGET_BPS)', 1),
                                  (re.compile(r'if let \(CcState::BackingOff \| CcState::Drain, CcState::Climbing\) = \(prev_state, next_state\)'),
                                   'if (matches!(prev_state, CcState::BackingOff) || matches!(prev_state, CcState::Drain)) && matches!(next_state, CcState::Climbing)', 1),
                                  ('self.target_bps as f64', 'cast_u64_f64(self.target_bps)', 1),
                                  ('step_pm as f64', 'cast_u32_f64(step_pm)', 1),
                                  ('(sane_observed as f64)', 'cast_u64_f64(sane_observed)', 2),
                                  ('MIN_TARGET_BPS as f64', 'cast_u64_f64(MIN_TARGET_BPS)', 1),
                                  ('BACKOFF_PERMILLE as f64', 'cast_u32_f64(BACKOFF_PERMILLE)', 1),
                                  ('DRAIN_PERMILLE as f64', 'cast_u32_f64(DRAIN_PERMILLE)', 1),
                                  ('(next as u64).clamp(MIN_TARGET_BPS, MAX_TARGET_BPS)', 'u64_clamp(cast_f64_u64(next), MIN_TARGET_BPS, MAX_TARGET_BPS)', 1),
                                  ('self.fast_recovery_ticks.saturating_sub(1)', 'u32_saturating_sub(self.fast_recovery_ticks, 1)', 1)],
                    requires=['old(self).eff_wf()'], splices=[('@BEGIN', '        broadcast use axiom_f64_obeys_eq;', 'after')],
                    ensures=[
                        C('C16.cc.tick.sits_at_the_floor_in_bootstrap_until_an_rtt_sample_exists',
                          'old(self).no_rtt() ==> final(self).state is Bootstrap && final(self).target_bps == 100_000 && final(self).climb_mode is Normal'),
                        C('C16.cc.tick.target_stays_within_100kbit_and_200mbit', '100_000 <= final(self).target_bps <= 200_000_000'),
                        C('C16.cc.tick.next_target_is_the_documented_function_of_state_previous_target_and_measured_rate',
                          '!old(self).no_rtt() ==> final(self).target_bps == clamp_u64(spec_f64_to_u64(spec_next_target(final(self).state, old(self).state, final(self).climb_mode, %s, %s)), 100_000, 200_000_000)' % (PREV, SANE)),
                        C('C16.cc.tick.backs_off_only_on_window_loss_above_5_permille_while_loaded_and_not_ruled_out',
                          '''!old(self).no_rtt() && final(self).state is BackingOff ==> spec_loss_pm(final(self).window_sent, final(self).window_lost) > 5 && !final(self).loss_uncongestive
                && (%s as int) * 1000 >= (spec_seeded(old(self).target_bps, %s) as int) * 300''' % (SANE, SANE)),
                        C('C16.cc.tick.fast_recovery_budget_is_armed_on_leaving_back_off_or_drain_and_spent_one_per_climbing_tick',
                          '''!old(self).no_rtt() ==> final(self).fast_recovery_ticks == (if final(self).state is Climbing {
                    sat_sub_u32(if old(self).state is BackingOff || old(self).state is Drain { 5u32 } else { old(self).fast_recovery_ticks }, 1) } else { 0u32 })
                && (final(self).state is Climbing ==> ((final(self).climb_mode is FastRecovery) == ((if old(self).state is BackingOff || old(self).state is Drain { 5u32 } else { old(self).fast_recovery_ticks }) > 0)))
                && (!(final(self).state is Climbing) ==> final(self).climb_mode is Normal)'''),
                        C('C16.cc.tick.the_loss_latch_moves_only_through_update_loss_ewma_fed_with_the_window_loss',
                          '''(old(self).no_rtt() ==> final(self).latch() == old(self).latch())
                && (!old(self).no_rtt() ==> final(self).latch() == spec_latch_step(old(self).loss_ewma, old(self).loss_ewma_last_ms, old(self).loss_high_since_ms, old(self).loss_degraded,
                        spec_loss_pm(final(self).window_sent, final(self).window_lost), now_ms))'''),
                        C('C16.cc.tick.frame', '''final(self).window() == %s && final(self).rtt_ewma_ms == old(self).rtt_ewma_ms && final(self).rtt_var_ms == old(self).rtt_var_ms
                && final(self).rtt_min_ms == old(self).rtt_min_ms && final(self).rtt_min_stamp_ms == old(self).rtt_min_stamp_ms && final(self).last_rtt_update_ms == old(self).last_rtt_update_ms
                && final(self).prev_bytes_sent_total == old(self).prev_bytes_sent_total && final(self).prev_nak_total == old(self).prev_nak_total
                && final(self).traffic_baseline_set == old(self).traffic_baseline_set''' % EV),
                        'final(self).eff_wf()',
                    ]))
    u.add(impl_block('LinkCongestionState', fns))
    return u
