#!/usr/bin/env python3
"""writes /verif/MANIFEST.json from vx/props.py (single source for the claimed set)."""
import json, os, sys
HERE = os.path.dirname(os.path.abspath(__file__))
sys.path.insert(0, HERE)
import props as P
import manifest_text as T

VERIF = os.path.dirname(HERE)
checks = []
for pid in sorted(P.PROPS):
    if pid not in T.TEXT:
        continue
    spec = P.PROPS[pid]
    t = T.TEXT[pid]
    checks.append(dict(
        property_id=pid,
        quick_cmd='./check %s quick' % pid,
        thorough_cmd='./check %s thorough' % pid,
        evidence_file='/verif/evidence/%s.json' % pid,
        replay_cmd_template='./check %s --replay {path}' % pid,
        engine='verus+kani',
        level_claimed=dict(category=spec.get('level', 'proof'), text=t['level'] + getattr(T, 'EXTRA', {}).get(pid, ''), design_ref=t.get('design_ref', 'DESIGN.md 8')),
        level_note=t['note'],
        technique=t['technique'],
    ))
na = [dict(property_id=k, reason=v) for k, v in sorted(T.NOT_APPLICABLE.items()) if not (k in P.PROPS and k in T.TEXT)]
m = dict(
    version=1,
    setup_cmd='./setup.sh',
    hooks=dict(guard='cargo feature verif-hooks (crates/srtla-core, srtla_send)', enable='path dependency with features = ["test-internals", "verif-hooks"] from /verif/kx and /verif/replay',
               baseline_off_cmd=T.BASELINE_OFF, source_commits=T.HOOK_COMMITS, add_only=True),
    engines=[
        dict(name='verus-extract', path='/verif/vx', serves_properties=sorted(k for k in P.PROPS if k in T.TEXT), kind_free_text='Verus 0.2026.09.13 on functions extracted mechanically from /repo on every run, contracts spliced from vx/units/*.py'),
        dict(name='kani', path='/verif/kx', serves_properties=T.KANI_SERVES, kind_free_text='Kani 0.68 harnesses on the real crates (path dependencies), loop-free = complete, loops = bounded'),
    ],
    checks=checks,
    notes=T.NOTES,
    not_applicable=na,
)
json.dump(m, open(os.path.join(VERIF, 'MANIFEST.json'), 'w'), indent=1)
print('MANIFEST.json written:', len(checks), 'checks,', len(na), 'not applicable')
