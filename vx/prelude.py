"""Trusted std specifications shared by all units (DESIGN.md §3.4).  Every integer
stub here is re-proved against the real std function by a Kani harness in
kx/src/stubs.rs (same formula)."""

INT = r'''
// ---- prelude: trusted std specs (integer part re-proved by Kani: kx/src/stubs.rs) ----
pub open spec fn sat_i32(x: int) -> i32 { if x > i32::MAX { i32::MAX } else if x < i32::MIN { i32::MIN } else { x as i32 } }
pub open spec fn sub_sat(a: u64, b: u64) -> u64 { if a >= b { (a - b) as u64 } else { 0 } }
pub assume_specification [i32::saturating_add] (a: i32, b: i32) -> (r: i32) ensures r == sat_i32(a + b);
pub assume_specification [i32::saturating_mul] (a: i32, b: i32) -> (r: i32) ensures r == sat_i32(a * b);
pub assume_specification [i32::saturating_sub] (a: i32, b: i32) -> (r: i32) ensures r == sat_i32(a - b);
pub assume_specification [i64::unsigned_abs] (x: i64) -> (r: u64)
    ensures r as int == if x < 0 { -(x as int) } else { x as int };
pub assume_specification<'a, T: Copy> [Option::<&T>::copied] (o: Option<&'a T>) -> (r: Option<T>)
    ensures o is None ==> r is None, o is Some ==> r == Some(*o.unwrap());

// std combinators without a vstd spec (so that code using them stays inside the accepted subset)
pub assume_specification<T> [Option::<Option<T>>::flatten] (o: Option<Option<T>>) -> (r: Option<T>)
    ensures r == (match o { Some(Some(x)) => Some(x), _ => None::<T> });
pub assume_specification<T, P: FnOnce(&T) -> bool> [Option::<T>::filter] (o: Option<T>, p: P) -> (r: Option<T>)
    requires o is Some ==> p.requires((&o.unwrap(),)),
    ensures o is None ==> r is None, o is Some ==> ((r == o && p.ensures((&o.unwrap(),), true)) || (r is None && p.ensures((&o.unwrap(),), false)));
pub assume_specification<T> [Option::<T>::or] (o: Option<T>, b: Option<T>) -> (r: Option<T>)
    ensures r == (if o is Some { o } else { b });
pub assume_specification<T, U, F: FnOnce(T) -> U> [Option::<T>::map_or] (o: Option<T>, d: U, f: F) -> (r: U)
    requires o is Some ==> f.requires((o.unwrap(),)),
    ensures o is None ==> r == d, o is Some ==> f.ensures((o.unwrap(),), r);

pub assume_specification [u64::abs_diff] (a: u64, b: u64) -> (r: u64) ensures r == (if a >= b { a - b } else { b - a });
pub assume_specification [u32::abs_diff] (a: u32, b: u32) -> (r: u32) ensures r == (if a >= b { a - b } else { b - a });
pub assume_specification [i32::abs_diff] (a: i32, b: i32) -> (r: u32) ensures r as int == (if a >= b { a - b } else { b - a });
pub assume_specification [i32::abs] (a: i32) -> (r: i32) requires a != i32::MIN ensures r == (if a >= 0 { a as int } else { -a });
pub assume_specification<T> [bool::then_some] (b: bool, t: T) -> (r: Option<T>)
    ensures b ==> r == Some(t), !b ==> r is None;

pub open spec fn spec_be16(a: u8, b: u8) -> u16 { ((a as u16) << 8) | (b as u16) }
pub open spec fn spec_be32(a: u8, b: u8, c: u8, d: u8) -> u32 {
    ((a as u32) << 24) | ((b as u32) << 16) | ((c as u32) << 8) | (d as u32)
}
#[verifier::external_body]
pub fn u16_from_be_bytes(a: u8, b: u8) -> (r: u16) ensures r == spec_be16(a, b) { u16::from_be_bytes([a, b]) }
#[verifier::external_body]
pub fn u32_from_be_bytes(a: u8, b: u8, c: u8, d: u8) -> (r: u32) ensures r == spec_be32(a, b, c, d) { u32::from_be_bytes([a, b, c, d]) }
#[verifier::external_body]
pub fn i32_from_be_bytes(a: u8, b: u8, c: u8, d: u8) -> (r: i32) ensures r == spec_be32(a, b, c, d) as i32 { i32::from_be_bytes([a, b, c, d]) }
#[verifier::external_body]
pub fn cmp_min_i32(a: i32, b: i32) -> (r: i32) ensures r == (if a <= b { a } else { b }) { std::cmp::min(a, b) }
#[verifier::external_body]
pub fn vec_from_slice(d: &[u8]) -> (r: Vec<u8>) ensures r@ == d@ { d.to_vec() }
'''

FLOAT = r'''
// ---- prelude: f64 layer.  Operations are total (IEEE ops never panic); results stay uninterpreted. ----
pub uninterp spec fn spec_f64_max(a: f64, b: f64) -> f64;
pub uninterp spec fn spec_f64_min(a: f64, b: f64) -> f64;
pub uninterp spec fn spec_f64_clamp(a: f64, lo: f64, hi: f64) -> f64;
pub uninterp spec fn spec_f64_floor(a: f64) -> f64;
pub uninterp spec fn spec_f64_abs(a: f64) -> f64;
pub uninterp spec fn spec_f64_is_finite(a: f64) -> bool;
pub assume_specification [f64::max] (a: f64, b: f64) -> (r: f64) ensures r == spec_f64_max(a, b);
pub assume_specification [f64::min] (a: f64, b: f64) -> (r: f64) ensures r == spec_f64_min(a, b);
pub assume_specification [f64::clamp] (a: f64, lo: f64, hi: f64) -> (r: f64) ensures r == spec_f64_clamp(a, lo, hi);
pub assume_specification [f64::floor] (a: f64) -> (r: f64) ensures r == spec_f64_floor(a);
pub assume_specification [f64::abs] (a: f64) -> (r: f64) ensures r == spec_f64_abs(a);
pub assume_specification [f64::is_finite] (a: f64) -> (r: bool) ensures r == spec_f64_is_finite(a);
#[verifier::external_body] pub fn f64_neg_infinity() -> f64 { f64::NEG_INFINITY }
#[verifier::external_body] pub fn f64_infinity() -> f64 { f64::INFINITY }
// exec comparisons on f64 are specified by vstd through partial_cmp_spec; spec-mode `<` on floats is a different
// (unlinked) symbol, so contracts use flt/fle/fgt/fge.
pub open spec fn flt(x: f64, y: f64) -> bool { x.partial_cmp_spec(&y) == Some(core::cmp::Ordering::Less) }
pub open spec fn fgt(x: f64, y: f64) -> bool { x.partial_cmp_spec(&y) == Some(core::cmp::Ordering::Greater) }
pub open spec fn fle(x: f64, y: f64) -> bool { x.partial_cmp_spec(&y) == Some(core::cmp::Ordering::Less) || x.partial_cmp_spec(&y) == Some(core::cmp::Ordering::Equal) }
pub open spec fn fge(x: f64, y: f64) -> bool { x.partial_cmp_spec(&y) == Some(core::cmp::Ordering::Greater) || x.partial_cmp_spec(&y) == Some(core::cmp::Ordering::Equal) }
pub mod fax { use vstd::prelude::*; use vstd::std_specs::ops::*; use vstd::std_specs::cmp::*;
#[verifier::external_body] pub broadcast proof fn axiom_f64_obeys_cmp() ensures #[trigger] <f64 as PartialOrdSpec<f64>>::obeys_partial_cmp_spec() {}
// exec float arithmetic is a deterministic function of its operands: r == a.add_spec(b) etc. (results stay uninterpreted)
#[verifier::external_body] pub broadcast proof fn axiom_f64_obeys_add() ensures #[trigger] <f64 as AddSpec<f64>>::obeys_add_spec() {}
#[verifier::external_body] pub broadcast proof fn axiom_f64_obeys_sub() ensures #[trigger] <f64 as SubSpec<f64>>::obeys_sub_spec() {}
#[verifier::external_body] pub broadcast proof fn axiom_f64_obeys_mul() ensures #[trigger] <f64 as MulSpec<f64>>::obeys_mul_spec() {}
#[verifier::external_body] pub broadcast proof fn axiom_f64_obeys_div() ensures #[trigger] <f64 as DivSpec<f64>>::obeys_div_spec() {}
#[verifier::external_body] pub broadcast proof fn axiom_f64_mul_total(a: f64, b: f64) ensures #[trigger] a.mul_req(b) {}
#[verifier::external_body] pub broadcast proof fn axiom_f64_add_total(a: f64, b: f64) ensures #[trigger] a.add_req(b) {}
#[verifier::external_body] pub broadcast proof fn axiom_f64_sub_total(a: f64, b: f64) ensures #[trigger] a.sub_req(b) {}
#[verifier::external_body] pub broadcast proof fn axiom_f64_div_total(a: f64, b: f64) ensures #[trigger] a.div_req(b) {}
pub broadcast group group_f64_total { axiom_f64_obeys_cmp, axiom_f64_obeys_add, axiom_f64_obeys_sub, axiom_f64_obeys_mul, axiom_f64_obeys_div, axiom_f64_mul_total, axiom_f64_add_total, axiom_f64_sub_total, axiom_f64_div_total }
}
broadcast use fax::group_f64_total;
'''
