"""Property table: which units / harnesses / audits decide which property."""

TRUSTED_BASE = [
    'Verus 0.2026.09.13 + bundled Z3; Kani 0.68.0 + CBMC 6.11',
    'extractor vx/gen.py + rewrite rules R0-R16 (DESIGN.md 3.2): logging dropped, SmallVec=Vec, FxHashMap=HashMap, cursor loops',
    'prelude stubs for std (vx/prelude.py); integer stubs re-proved by Kani (kx/src/stubs.rs)',
    'machine arithmetic preconditions stated in each contract (clock < 2^62, counters < 2^63)',
]

def K(h, ob, kind='complete', tier='quick', bound=None, note=''):
    """one Kani harness = one obligation.  kind: complete (loop-free, full symbolic domain) | bounded | lemma | stub"""
    return dict(h=h, ob=ob, kind=kind, tier=tier, bound=bound, note=note)


STUB_HARNESSES = [
    K('stub_u16_from_be_bytes', 'prelude.stub.u16_from_be_bytes', kind='stub'),
    K('stub_u32_from_be_bytes', 'prelude.stub.u32_i32_from_be_bytes', kind='stub'),
    K('stub_saturating_i32', 'prelude.stub.i32_saturating_and_min', kind='stub'),
    K('stub_to_be_bytes_inverse', 'prelude.stub.to_be_bytes_reads_back', kind='stub'),
    K('stub_unsigned_abs', 'prelude.stub.i64_unsigned_abs', kind='stub'),
]

PROPS = {
    'C01': dict(units=['core_all', 'route'], level='proof'),
    'C02': dict(units=['core_all', 'events', 'route'], level='proof'),
    'C03': dict(units=['core_all', 'route', 'reg'], level='proof', kani=[
        K('lemma_score_gt_neg1', 'C03.kani.lemma.score_of_a_connected_candidate_exceeds_the_start_score', kind='lemma'),
        K('lemma_one_is_q_ok', 'C03.kani.lemma.default_quality_is_in_range', kind='lemma'),
        K('quality_multiplier_range', 'C03.kani.quality_multiplier_in_035_12'),
        K('soft_cap_range', 'C03.kani.soft_cap_factor_in_01_1'),
    ]),
    'C04': dict(units=['core_all', 'route', 'reg', 'events'], level='proof'),
    'C11': dict(units=['core_all', 'conns', 'route'], level='proof', kani=[
        K('quality_multiplier_range', 'C11.kani.quality_multiplier_in_035_to_11x103'),
        K('soft_cap_range', 'C11.kani.soft_cap_factor_in_01_1'),
        K('in_flight_cap_at_least_one', 'C11.kani.in_flight_cap_at_least_one_packet_and_none_iff_no_target'),
        K('lemma_score_gt_neg1', 'C11.kani.lemma.scores_are_finite_and_above_the_start_score', kind='lemma'),
    ]),
    'C05': dict(units=['core_all', 'events', 'route', 'conns'], level='proof'),
    'C09': dict(units=['core_all', 'events', 'route', 'reg', 'drain', 'conns', 'hk'], level='proof', kani=[
        K('decoders_total_and_layouts_le24', 'C09.kani.decoders_never_panic_on_short_frames', kind='bounded', bound='every byte string of length 0..=24'),
    ]),
    'C10': dict(units=['core_all', 'events', 'route', 'hk'], level='proof'),
    'C06': dict(units=['core_all', 'hk'], level='proof', kani=[
        K('window_recovery_contract', 'C06.kani.time_based_recovery_in_range_never_decreases_at_most_120_fast_recovery_left_at_12000',
          note='alloc::fmt::format stubbed (debug-only string on the growth path)'),
    ]),
    'C08': dict(units=['core_all', 'hk', 'events', 'drain', 'conns', 'ctl'], level='proof'),
    'C12': dict(units=['core_all', 'events', 'drain', 'route'], level='proof'),
    'C13': dict(units=['core_all', 'events'], level='proof', kani=[
        K('effective_stall_window_formula', 'C13.kani.effective_window_is_clamp_4srtt_1000_ceiling_and_pull_window_below_it'),
    ]),
    'C14': dict(units=['core_all', 'events', 'hk'], level='proof', kani=[
        K('keepalive_ext_roundtrip', 'C14.kani.extended_keepalive_is_38_bytes_standard_prefix_and_decodes_back'),
        K('smooth_rtt_never_negative_or_nan', 'C14.kani.smoothed_rtt_never_negative'),
        K('keepalive_packet_telemetry', 'C14.kani.keepalive_of_the_real_link_carries_timestamp_and_current_telemetry'),
    ]),
    'C07': dict(units=['core_all', 'reg', 'events', 'hk'], level='proof',
                kani=[K('reg_packets_layout', 'C07.kani.reg_packets_carry_type_and_id')]),
    'C16': dict(units=['ccglue', 'cc'], level='proof',
                not_covered=['the IEEE-level reading of the exact factors (that prev*850/1000 is 0.85 x prev up to rounding, *750/1000, step <= 6 %): float multiplier reasoning, the three Kani harnesses (kx/src/cc.rs: cc_tick_backoff_085, cc_tick_drain_075, cc_tick_growth_at_most_6_percent) did not terminate in 40 min and are NOT run; the STRUCTURE (these constants, these operations, these operands) is proved by Verus in unit cc',
                             'the seeding rule is specified as the code has it (the recorded known finding is reported by the Kani obligation, not by unit cc)'],
                kani=[
        K('cc_tick_range_and_wf', 'C16.kani.tick.target_in_range_and_floor_until_rtt_sample'),
        K('cc_default_state_is_well_formed', 'C16.kani.default.a_fresh_controller_satisfies_the_representation_invariant'),
        K('cc_tick_lowered_only_by_backoff_or_drain_entry', 'C16.kani.tick.lowered_only_by_backoff_or_drain_entry'),
        K('cc_loss_latch_hysteresis', 'C16.kani.loss_latch.enter_055_for_4s_clear_below_025'),
        K('cc_tick_backoff_never_raises_never_below_delivered', 'C16.kani.tick.backoff_never_raises_and_never_cuts_below_the_delivered_rate'),
        K('cc_tick_drain_cuts_once', 'C16.kani.tick.drain_lowers_only_on_entry'),
        K('cc_tick_growth_bounded_at_floor_after_bootstrap', 'C16.kani.tick.growth_bounded_at_floor_after_bootstrap'),
        K('cc_tick_grows_only_when_climbing_and_never_beyond_2x_measured', 'C16.kani.tick.grows_only_when_climbing_and_never_beyond_twice_the_measured_rate', tier='thorough',
          note='comparison-only clauses; about 2 min of CBMC'),
    ]),
    'C17': dict(units=['cls', 'core_all', 'events'], level='proof'),
    'C18': dict(units=['ctl'], level='proof',
                not_covered=['control_socket.rs line framing (tokio::select! loop)', 'concurrent setters and snapshot readers (atomics sequentialised)', 'serde_json itself (parsing, typed accessors, Response::to_json)', 'subscription handlers']),
    'C19': dict(units=['reload', 'events', 'conns', 'hk', 'core_all'], level='proof'),
    'C15': dict(
        kani=[K('reg_packets_layout', 'C15.kani.reg1_reg2_are_258_bytes_type_plus_id'),
              K('keepalive_roundtrip', 'C15.kani.keepalive_decodes_back', note='8-iteration loop fully unwound (unwind 9, unwinding assertions on)'),
              K('keepalive_ext_roundtrip', 'C15.kani.extended_keepalive_decodes_back', note='8-iteration loop fully unwound'),
              K('ack_packet_roundtrip_le4', 'C15.kani.srtla_ack_decodes_back', kind='bounded', bound='1..=4 acknowledged numbers'),
              K('decoders_total_and_layouts_le24', 'C15.kani.decoders_total_and_fixed_offset_layouts_on_short_frames', kind='bounded', bound='every byte string of length 0..=24 (structure-independent cross-check on the compiled code)')] + STUB_HARNESSES,
        units=['proto', 'reg'],
        level='proof',
        trusted=['u16/u32/i32::from_be_bytes specified as shift-or of the bytes (stub, Kani-validated)'],
        not_covered=[],
    ),
}


def run_extra(pid, tier, seed):
    import kani
    spec = PROPS[pid]
    hs = [k for k in spec.get('kani', []) if tier == 'thorough' or k['tier'] == 'quick']
    out = dict(obligations={}, assumptions=[], cmds=[], bounded={}, kani_time_s={}, audits=[])
    if hs:
        res = kani.run([k['h'] for k in hs])
        out['cmds'].append(res['_cmd'])
        for k in hs:
            r = res[k['h']]
            st = {'pass': 'discharged', 'fail': 'failed', 'undecided': 'undecided'}[r['status']]
            info = dict(status=st, unit='kani', backend='kani/cbmc (%s)' % k['kind'], harness=k['h'], msg=r.get('reason', ''), output=r.get('output', '')[-3000:])
            if st == 'failed':
                try:
                    info['cex'] = kani.concrete_playback(k['h'], timeout=300 if tier == 'quick' else 900)
                except Exception:
                    info['cex'] = None
            out['obligations'][k['ob']] = info
            out['kani_time_s'][k['h']] = r.get('time_s')
            if k['kind'] == 'bounded':
                out['bounded'][k['h']] = k['bound']
        out['assumptions'].append('kani: tracing macros replaced by a no-op shim (kx/shims/tracing); logging arguments are not evaluated')
        if any(k['h'].startswith('cc_') for k in hs):
            out['assumptions'].append('kani: f64::exp modelled as: finite, >= 0, <= 1 for x <= 0 (cc_loss_latch_hysteresis)')
            out['assumptions'].append('kani: inside tick() the call update_loss_ewma is replaced by a no-op; frame proved by cc_loss_latch_hysteresis')
    return out
