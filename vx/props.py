"""Property table: which units / harnesses / audits decide which property."""

TRUSTED_BASE = [
    'Verus 0.2026.09.13 + bundled Z3; Kani 0.68.0 + CBMC 6.11',
    'extractor vx/gen.py + rewrite rules R0-R16 (DESIGN.md 3.2): logging dropped, SmallVec=Vec, FxHashMap=HashMap, cursor loops',
    'prelude stubs for std (vx/prelude.py); integer stubs re-proved by Kani (kx/src/stubs.rs)',
    'machine arithmetic preconditions stated in each contract (clock < 2^62, counters < 2^63)',
]

PROPS = {
    'C15': dict(
        units=['proto'],
        level='proof',
        trusted=['u16/u32/i32::from_be_bytes specified as shift-or of the bytes (stub, Kani-validated)'],
        not_covered=[],
    ),
}
