#!/usr/bin/env python3
"""check driver: ./check <Cxx> [quick|thorough]   (DESIGN.md §6, Appendix B)

exit 0  every ledger obligation of the property discharged
exit 1  VIOLATION line(s) printed: a ledger obligation fails with a semantic verdict
exit 2  undecided (lost anchor, unsupported construct, resource limit, scaffold failure); no VIOLATION line
"""
import concurrent.futures as cf
import hashlib
import importlib
import json
import os
import re
import sys
import time
import traceback

HERE = os.path.dirname(os.path.abspath(__file__))
VERIF = os.path.dirname(HERE)
sys.path.insert(0, HERE)
sys.path.insert(0, os.path.join(HERE, 'units'))

import gen            # noqa: E402
import verus          # noqa: E402
import rules          # noqa: E402
from rustlex import LexError  # noqa: E402
import props as PROPS  # noqa: E402

LEDGER = os.path.join(VERIF, 'baseline', 'obligations.json')
KNOWN = os.path.join(VERIF, 'known_findings.txt')
# a run against a scratch copy of the repository (VERIF_REPO + VERIF_GEN_DIR: seeded-change / refactoring experiments) keeps its evidence and
# replay files with the scratch copy: /verif/evidence only ever describes /repo itself
_OUT = os.environ.get('VERIF_GEN_DIR') if os.environ.get('VERIF_REPO') and os.environ.get('VERIF_GEN_DIR') else VERIF
REPLAYS = os.path.join(_OUT, 'replays')
EVID = os.path.join(_OUT, 'evidence')


def tag_props(tag):
    return tag.split('.', 1)[0].split('+')


def load_known():
    """finding: property=Cxx obligation=<tag> ...   /  fixed: ...  (suppresses nothing)"""
    out = {}
    if not os.path.exists(KNOWN):
        return out
    for line in open(KNOWN):
        line = line.strip()
        if line.startswith('finding:'):
            kv = dict(re.findall(r'(\w+)=("[^"]*"|\S+)', line))
            ob = kv.get('obligation', '').strip('"')
            out[ob] = dict(property=kv.get('property'), what=kv.get('what', '').strip('"'), line=line)
    return out


def run_unit(unit_name, tier, seed):
    """generate + verify one unit.  returns dict(status='ok'|'undecided', ...)"""
    t0 = time.time()
    try:
        mod = importlib.import_module(unit_name)
        u = mod.build()
        path, meta = u.write()
    except (gen.LostAnchor, rules.RuleError, LexError) as e:
        return dict(unit=unit_name, status='undecided', reason='extraction: %s: %s' % (type(e).__name__, e), wall_s=time.time() - t0)
    except Exception as e:
        return dict(unit=unit_name, status='undecided', reason='generator crashed: ' + traceback.format_exc(limit=3), wall_s=time.time() - t0)
    rl = getattr(mod, 'RLIMIT', None)
    res = verus.run(path, rlimit=rl)
    verus.attribute(res, meta)
    out = dict(unit=unit_name, meta=meta, res=res, path=path, wall_s=time.time() - t0)
    if res['front_end_error']:
        out['status'] = 'undecided'
        out['reason'] = 'verus front end rejected the generated file: ' + '; '.join(res['front_end_msgs'][:4])
        return out
    out['status'] = 'ok'
    if tier == 'thorough':
        # stability re-run: different seed, double rlimit; a flip is reported, never an alarm
        res2 = verus.run(path, rlimit=(rl or 10) * 2, seed=seed)
        out['stability'] = dict(seed=seed, verified=res2['verified'], errors=res2['errors'], wall_s=res2['wall_s'],
                                same=(res2['verified'] == res['verified'] and res2['errors'] == res['errors']))
        out['vacuity'] = vacuity_probe(unit_name, rl)
    return out


def vacuity_probe(unit_name, rl):
    """thorough tier: regenerate the unit with an `assert(false)` probe at the normal exit and before every statement-position `return` of
    every verified function (contracts unchanged) and require that EVERY probe FAILS.  A probe that verifies marks an exit no state can reach
    under the preconditions, loop clauses and callee contracts: what is proved at that exit is vacuous."""
    import subprocess
    code = ('import sys, json; sys.path.insert(0, %r); sys.path.insert(0, %r); import importlib, verus; m = importlib.import_module(%r); u = m.build(); '
            'p, meta = u.write(%r); r = verus.run(p, rlimit=%r, extra=["--multiple-errors", "64"]); '
            'lines = open(p).read().split("\\n"); probes = {i + 1: l.split("@vacuity-probe")[1].strip() for i, l in enumerate(lines) if "@vacuity-probe" in l}; '
            'failed = [s["l0"] for d in r["diags"] if d["kind"] == "assert" for s in d["spans"]]; '
            'print(json.dumps(dict(fe=r["front_end_error"], msgs=r["front_end_msgs"][:3], probes=probes, failed=failed)))'
            % (HERE, os.path.join(HERE, 'units'), unit_name, os.path.join(VERIF, '.cache', 'vacuity'), rl))
    env = dict(os.environ, VERIF_VACUITY='1')
    try:
        p = subprocess.run([sys.executable, '-c', code], env=env, capture_output=True, text=True, timeout=1200)
        d = json.loads(p.stdout.strip().split('\n')[-1])
    except Exception as e:
        return dict(status='undecided', reason='vacuity probe could not run: %s' % e)
    if d['fe']:
        return dict(status='undecided', reason='vacuity probe rejected by the front end: ' + '; '.join(d['msgs']))
    failed = set(d['failed'])
    by_fn = {}
    for ln, fn in d['probes'].items():
        by_fn.setdefault(fn, []).append(int(ln) in failed)
    # a function is vacuous when NONE of its exits is reachable; single unreachable exits are dead code in the program itself
    # (e.g. three branches of classifier::pick_tier behind `max_pm > 850` can never run) and are only reported
    vac = sorted(fn for fn, fl in by_fn.items() if not any(fl))
    dead = sorted(fn for fn, fl in by_fn.items() if any(fl) and not all(fl))
    return dict(status='ok', probes=len(d['probes']), functions=len(by_fn), vacuous=vac, functions_with_an_unreachable_exit=dead)


def second_opinion(unit_name, rl):
    """a function that fails in the first run is verified again in two other SOUND configurations before anything is concluded from the failure:
      (a) `loop_isolation(false)` on every function (every loop sees the facts established before it: e.g. the defining equation of a `let`
          hoisted out of a loop by a harmless refactoring),
      (b) the same text with another solver seed and three times the resource limit (proofs that were found by luck).
    A function that verifies COMPLETELY in either configuration holds its contract; only a function that fails in all of them is reported.
    Returns the set of function names failing in every available extra run, or None if no extra run could be made."""
    import subprocess
    base = os.environ.get('VERIF_GEN_DIR') or os.path.join(VERIF, '.cache')
    results = []
    for tag, env_extra, kw in (('noiso', dict(VERIF_NO_LOOP_ISOLATION='1'), 'rlimit=%r' % rl), ('seed', {}, 'rlimit=%r, seed=7' % ((rl or 10) * 3))):
        code = ('import sys, json; sys.path.insert(0, %r); sys.path.insert(0, %r); import importlib, verus; m = importlib.import_module(%r); u = m.build(); '
                'p, meta = u.write(%r); r = verus.run(p, %s); verus.attribute(r, meta); '
                'print(json.dumps(dict(fe=r["front_end_error"], failed=sorted({(d.get("function") or "?") for d in r["diags"]}))))'
                % (HERE, os.path.join(HERE, 'units'), unit_name, os.path.join(base, 'second_opinion_' + tag), kw))
        env = dict(os.environ, **env_extra)
        env.pop('VERIF_VACUITY', None)
        try:
            p = subprocess.run([sys.executable, '-c', code], env=env, capture_output=True, text=True, timeout=1500)
            d = json.loads(p.stdout.strip().split('\n')[-1])
        except Exception:
            continue
        if not d['fe']:
            results.append(set(x.split('::')[-1] for x in d['failed']))
    if not results:
        return None
    return set.intersection(*results)


def fn_range(meta, qname, line):
    """is generated line `line` inside function `qname`?"""
    for q, l0, l1 in meta['functions']:
        if q == qname or q.split('::')[-1] == qname.split('::')[-1]:
            if l0 <= line <= l1:
                return True
    return False


def helper_reach(meta, path, pid):
    """short names of the functions (in this generated unit) that a function carrying an obligation of `pid` can call, transitively.
    Textual call graph over the generated file (over-approximate by short name): used to decide which properties an UNTAGGED
    contract failure in a helper leaves undecided (callers are verified against the helper's contract, not its body)."""
    lines = open(path).read().split('\n')
    fns = meta['functions']
    short = lambda q: q.split('::')[-1]
    names = {short(f[0]) for f in fns}
    calls = {}
    carries = set()
    for q, l0, l1 in fns:
        body = '\n'.join(lines[l0 - 1:l1])
        calls.setdefault(short(q), set()).update(n for n in set(re.findall(r'\b([A-Za-z_]\w*)\s*\(', body)) if n in names and n != short(q))
        ov = meta['overlays'].get(q, {})
        if pid in ov.get('props', []) or any(pid in tag_props(t) for ln, ts in meta['tags'].items() if l0 <= int(ln) <= l1 for t in ts):
            carries.add(short(q))
    seen = set()
    todo = list(carries)
    while todo:
        f = todo.pop()
        for g in calls.get(f, ()):
            if g not in seen:
                seen.add(g)
                todo.append(g)
    return seen


def global_reach(results, pid):
    """helper_reach over ALL units of the property at once: a function carrying an obligation of `pid` in one unit may call a helper that is
    only a stub there and whose body (and contract failure) lives in another unit; the call edges of every generated file are merged by
    short name before the reachability closure."""
    calls = {}
    carries = set()
    short = lambda q: q.split('::')[-1]
    for un, r in results.items():
        if r.get('status') != 'ok':
            continue
        meta = r['meta']
        lines = open(r['path']).read().split('\n')
        fns = meta['functions']
        names = {short(f[0]) for f in fns}
        for q, l0, l1 in fns:
            body = '\n'.join(lines[l0 - 1:l1])
            calls.setdefault(short(q), set()).update(n for n in set(re.findall(r'\b([A-Za-z_]\w*)\s*\(', body)) if n in names and n != short(q))
            ov = meta['overlays'].get(q, {})
            if pid in ov.get('props', []) or any(pid in tag_props(t) for ln, ts in meta['tags'].items() if l0 <= int(ln) <= l1 for t in ts):
                carries.add(short(q))
    seen = set()
    todo = list(carries)
    while todo:
        f = todo.pop()
        for g in calls.get(f, ()):
            if g not in seen:
                seen.add(g)
                todo.append(g)
    return seen


def assumption_scan(path):
    txt = open(path).read()
    found = []
    for m in re.finditer(r'#\[verifier::external_body\]\s*(?:pub\s+)?(?:broadcast\s+)?(?:proof\s+)?(fn|struct)\s+(\w+)', txt):
        found.append('external_body %s %s' % (m.group(1), m.group(2)))
    for m in re.finditer(r'assume_specification\s*(?:<[^>]*>)?\s*\[\s*([^\]]+)\]', txt):
        found.append('assume_specification ' + re.sub(r'\s+', '', m.group(1)))
    for m in re.finditer(r'\b(assume|admit)\s*\(', txt):
        found.append(m.group(1) + '(...)')
    for m in re.finditer(r'external_type_specification[^\n]*\n?[^\n]*struct\s+(\w+)', txt):
        found.append('external_type_specification ' + m.group(1))
    return sorted(set(found))


def main(argv):
    if len(argv) < 2:
        print(__doc__)
        return 2
    pid = argv[1]
    tier = argv[2] if len(argv) > 2 else os.environ.get('VERIF_TIER', 'quick')
    replay_ob = None
    if tier == '--replay':
        # `./check Cxx --replay <file>`: re-decide the property on the CURRENT tree and say whether the recorded obligation fails again.
        # (Verus gives no input to re-execute; a Kani record carries its concrete playback test in the file.)
        try:
            replay_ob = json.load(open(argv[3]))['obligation']
        except Exception as e:
            print('cannot read replay file:', e)
            return 2
    if tier not in ('quick', 'thorough'):
        tier = 'quick'
    seed = int(os.environ.get('VERIF_SEED', '1') or 1)
    if pid == '--update-ledger':
        return update_ledger(argv[2:])
    if pid not in PROPS.PROPS:
        print('unknown or unclaimed property', pid)
        return 2
    spec = PROPS.PROPS[pid]
    t0 = time.time()
    os.makedirs(REPLAYS, exist_ok=True)
    os.makedirs(EVID, exist_ok=True)
    ledger = json.load(open(LEDGER)) if os.path.exists(LEDGER) else {}
    known = load_known()

    units = spec.get('units', [])
    results = {}
    with cf.ThreadPoolExecutor(max_workers=max(1, len(units))) as ex:
        futs = {ex.submit(run_unit, un, tier, seed): un for un in units}
        for f in cf.as_completed(futs):
            results[futs[f]] = f.result()

    violations = []      # (tag, unit, diag)
    known_hits = []
    undecided = []
    obligations = {}     # tag -> dict(status, unit, backend)
    reach = {}
    second = {}          # unit -> functions failing in the loop_isolation(false) run (None: run not available)
    notes = []
    fn_evidence = []
    assumptions = set()
    smt_ms = 0.0
    checker_cmds = []
    for un in units:
        r = results[un]
        if r['status'] != 'ok':
            undecided.append('%s: %s' % (un, r['reason']))
            continue
        meta, res = r['meta'], r['res']
        checker_cmds.append(res['cmd'])
        smt_ms += res.get('smt_total_ms') or 0
        for a in assumption_scan(r['path']):
            assumptions.add('%s: %s' % (un, a))
        # obligations of this property in this unit
        for ln, tags in meta['tags'].items():
            for t in tags:
                if pid in tag_props(t):
                    obligations.setdefault(t, dict(status='discharged', unit=un, backend='verus/z3', lines=[]))['lines'].append(int(ln))
        # every function that carries obligations of this property must appear in the verifier's own per-function report: an obligation is
        # only `discharged` if the function it sits in was actually sent to the solver in this run
        reported = {f['function'].split('::')[-1] for f in res.get('functions', [])}
        for q, ov in meta['overlays'].items():
            if ov['stub'] or q.split('::')[-1] in reported:
                continue
            if pid in ov.get('props', []) or any(t and pid in tag_props(t) for t, _ in ov['ensures']) \
                    or any(pid in tag_props(t) for ln, ts in meta['tags'].items() for t in ts if fn_range(meta, q, int(ln))):
                undecided.append('%s: %s carries %s obligations but is missing from the verifier\'s per-function report (not verified in this run)' % (un, q, pid))
        # implicit panic-freedom obligations
        for q, ov in meta['overlays'].items():
            if pid in ov.get('props', []) and not ov['stub']:
                obligations.setdefault('%s.%s.%s.panic_free' % (pid, un, q.replace('::', '.')), dict(status='discharged', unit=un, backend='verus/z3', lines=[]))
        for d in res['diags']:
            mine = [t for t in d['tags'] if pid in tag_props(t)]
            fn = d.get('function')
            ov = None
            if fn:
                for q, o in meta['overlays'].items():
                    if q == fn or q.endswith('::' + fn) or fn.endswith('::' + q) or q.split('::')[-1] == fn.split('::')[-1]:
                        ov = (q, o)
                        if q == fn:
                            break
            if fn:
                # second opinion: does the function fail with loop_isolation(false) too?  (lazy: one extra run per failing unit)
                if un not in second:
                    second[un] = second_opinion(un, getattr(importlib.import_module(un), 'RLIMIT', None))
                if second[un] is not None and fn not in second[un] and fn.split('::')[-1] not in {x.split('::')[-1] for x in second[un]}:
                    # the whole function verifies in that mode: the failure was an artefact of loop isolation (e.g. a `let` hoisted out of a
                    # loop lost its defining equation), not of the code
                    notes.append('%s: %s failed in the first run (%s: %s) but verifies completely in another sound configuration (loop_isolation(false) / other seed, 3x rlimit): discharged'
                                 % (un, fn, d['kind'], ','.join(d['tags']) or 'untagged'))
                    continue
            if ov and ov[0] in meta.get('imprecise', {}):
                # unsupported construct (accepted by Verus but encoded imprecisely): a failure here says nothing about the code
                if pid in ov[1].get('props', []) or any(t and pid in tag_props(t) for t, _ in ov[1]['ensures']) \
                        or (fn and fn.split('::')[-1] in reach.setdefault('*', global_reach(results, pid))):
                    undecided.append('%s: %s contains %s; %s failed there and is not trusted' % (un, fn, meta['imprecise'][ov[0]], ','.join(d['tags']) or d['kind']))
                continue
            if d['kind'] == 'resource':
                if ov and (pid in ov[1].get('props', []) or any(pid in tag_props(t or '') for t, _ in ov[1]['ensures'] if t)):
                    undecided.append('%s: resource limit in %s' % (un, fn))
                continue
            if mine and ov and ov[0] in meta.get('restructured', []) and d['kind'] != 'post' and '@exit' not in d['tags']:
                # the function's loops were merged / duplicated: the loop-level clauses of the overlay were written for another
                # decomposition, so only a failing POSTCONDITION (at an exit) is trusted as a violation here
                undecided.append('%s: %s was restructured (its loops no longer match the overlay one-to-one); loop-level clause %s failed but is '
                                 'not trusted on the new structure' % (un, fn, ','.join(mine)))
                continue
            if mine:
                for t in mine:
                    obligations.setdefault(t, dict(status='discharged', unit=un, backend='verus/z3', lines=[]))
                    obligations[t]['status'] = 'failed'
                    violations.append((t, un, d))
                continue
            if d['tags']:
                # tagged for other properties only.  A failed postcondition does not affect the other postconditions of the function,
                # but a failed loop clause / assertion is ASSUMED by everything after it: the function's obligations of this property
                # were then proved relative to a false assumption -> not decided
                if d['kind'] != 'post' and ov and (pid in ov[1].get('props', []) or any(t and pid in tag_props(t) for t, _ in ov[1]['ensures'])
                                                   or any(pid in tag_props(t) for ln, ts in meta['tags'].items() for t in ts if fn_range(meta, ov[0], int(ln)))):
                    undecided.append('%s: clause %s (of another property) failed inside %s; the %s obligations of that function were proved assuming it, '
                                     'so they are not decided' % (un, ','.join(d['tags']), fn, pid))
                elif fn and fn.split('::')[-1] in reach.setdefault('*', global_reach(results, pid)):
                    # (a failed POSTCONDITION of a callee counts here too: its callers were verified against it)
                    undecided.append('%s: clause %s (of another property) failed inside %s, which functions carrying %s obligations call: they were '
                                     'verified against its contract, so they are not decided' % (un, ','.join(d['tags']), fn, pid))
                continue
            # untagged failure
            if ov and pid in ov[1].get('props', []) and d['kind'] in ('overflow', 'bounds', 'div0', 'pre') and not d.get('user_pre') \
                    and ov[0] in meta.get('unspec_loops', []):
                undecided.append('%s: %s contains a loop the overlay has no invariant for; %s (%s) there cannot be decided without one' % (un, fn, d['msg'], d['kind']))
                continue
            if ov and pid in ov[1].get('props', []) and d['kind'] in ('overflow', 'bounds', 'div0', 'pre') and not d.get('user_pre'):
                t = '%s.%s.%s.panic_free' % (pid, un, ov[0].replace('::', '.'))
                obligations[t]['status'] = 'failed'
                violations.append((t, un, d))
                continue
            # scaffold failure in a function that carries obligations of this property -> undecided
            if ov and (pid in ov[1].get('props', []) or any(t and pid in tag_props(t) for t, _ in ov[1]['ensures'])):
                undecided.append('%s: untagged proof step failed in %s (%s at gen line %s): the proof needs repair; '
                                 'obligations of this function are not decided' % (un, fn, d['msg'], d['spans'][0]['l0'] if d['spans'] else '?'))
            elif fn and fn.split('::')[-1] in reach.setdefault('*', global_reach(results, pid)):
                # a helper whose (untagged) contract is what callers carrying this property were verified against
                undecided.append('%s: the contract of helper %s no longer verifies (%s at gen line %s); functions carrying %s obligations '
                                 'call it and were checked against that contract, so they are not decided' % (un, fn, d['msg'], d['spans'][0]['l0'] if d['spans'] else '?', pid))
        # vacuity probe (thorough tier)
        vac = r.get('vacuity')
        if vac:
            if vac.get('status') != 'ok':
                undecided.append('%s: %s' % (un, vac.get('reason')))
            for q in vac.get('vacuous', []):
                ovq = meta['overlays'].get(q, {})
                if pid in ovq.get('props', []) or any(t and pid in tag_props(t) for t, _ in ovq.get('ensures', [])) \
                        or any(pid in tag_props(t) for ln, ts in meta['tags'].items() for t in ts if fn_range(meta, q, int(ln))):
                    undecided.append('%s: VACUOUS: %s still verifies with its postcondition replaced by `false` (contradictory preconditions or loop '
                                     'clauses): its %s obligations prove nothing' % (un, q, pid))
        # per-function evidence
        fmap = {f['function'].split('::', 1)[-1]: f for f in res['functions']}
        for p in meta['provenance']:
            if p.get('kind') == 'fn' and not p.get('stubbed_here'):
                q = p['name']
                ov = meta['overlays'].get(q, {})
                if pid in ov.get('props', []) or any(t and pid in tag_props(t) for t, _ in ov.get('ensures', [])):
                    f = fmap.get(q) or fmap.get(q.split('::')[-1]) or {}
                    fn_evidence.append(dict(function=q, file=p['file'], lines=p['lines'], sha256=p['sha256'][:16], rules=p.get('rules', {}),
                                            smt_us=f.get('time_us'), rlimit=f.get('rlimit'), verified=f.get('success')))

    # extra engines (kani, audits) are plugged in by props.py
    extra = PROPS.run_extra(pid, tier, seed) if hasattr(PROPS, 'run_extra') else None
    if extra:
        for ob, info in extra.get('obligations', {}).items():
            obligations[ob] = info
            if info['status'] == 'failed':
                violations.append((ob, info.get('unit', 'kani'), dict(kind='kani', msg=info.get('msg', ''), rendered=info.get('output', ''), spans=[], function=info.get('harness'), cex=info.get('cex'))))
            elif info['status'] == 'undecided':
                undecided.append('%s: %s' % (ob, info.get('msg', 'undecided')))
        for a in extra.get('assumptions', []):
            assumptions.add(a)
        checker_cmds += extra.get('cmds', [])

    # ledger comparison: every ledger obligation must still exist
    led = ledger.get(pid, [])
    missing = [t for t in led if t not in obligations]
    if missing and not any(results[un]['status'] != 'ok' for un in units):
        undecided.append('ledger obligations no longer generated: ' + ', '.join(missing[:5]))

    # verdicts
    lines = []
    nviol = 0
    seen = set()
    for (t, un, d) in violations:
        if t in seen:
            continue
        seen.add(t)
        if t in known and known[t]['property'] == pid:
            known_hits.append(t)
            obligations[t]['status'] = 'known-finding'
            lines.append('KNOWN-FINDING: property=%s %s (obligation %s)' % (pid, known[t]['what'], t))
            continue
        nviol += 1
        rp = os.path.join(REPLAYS, '%s-%s.json' % (pid, re.sub(r'[^A-Za-z0-9_.-]', '_', t)))
        prov = None
        if un in results and results[un].get('meta'):
            for p in results[un]['meta']['provenance']:
                if p.get('name') and d.get('function') and p['name'].split('::')[-1] == d['function'].split('::')[-1]:
                    prov = dict(file=p['file'], lines=p['lines'])
        cex = d.get('cex')
        with open(rp, 'w') as f:
            json.dump(dict(property=pid, obligation=t, unit=un, verdict=d['kind'], message=d['msg'], function=d.get('function'),
                           source=prov, verifier_output=d.get('rendered', ''), counterexample=cex,
                           generated_file=results.get(un, {}).get('path'), tier=tier,
                           note=('counterexample produced by Kani concrete playback' if cex else
                                 'the deductive verifier gives no counterexample for this obligation: no-failing-input-found')), f, indent=1)
        lines.append('VIOLATION property=%s replay=%s obligation=%s%s' % (pid, rp, t, '' if cex else ' no-failing-input-found'))

    n_ob = len([o for o in obligations.values() if o['status'] != 'known-finding'])
    n_dis = len([o for o in obligations.values() if o['status'] == 'discharged'])
    samples = []
    for t, o in sorted(obligations.items())[:400]:
        samples.append(dict(obligation=t, status=o['status'], backend=o.get('backend'), unit=o.get('unit')))
    ev = dict(
        property_id=pid, tier=tier, seed=seed, level=spec.get('level', 'proof'),
        coverage=dict(
            obligations=n_ob, discharged=n_dis,
            checker_cmd=' ; '.join(checker_cmds) or 'none',
            trusted_base=PROPS.TRUSTED_BASE + spec.get('trusted', []),
            samples=samples[:60],
            functions_under_contract=fn_evidence,
            backend_by_obligation={t: o.get('backend') for t, o in obligations.items()},
            obligation_status={t: o['status'] for t, o in obligations.items()},
            smt_time_ms=smt_ms,
            units={un: dict(status=results[un]['status'], wall_s=round(results[un]['wall_s'], 2),
                            verified=results[un].get('res', {}).get('verified'), errors=results[un].get('res', {}).get('errors'),
                            gen_sha256=results[un].get('meta', {}).get('sha256'),
                            stability=results[un].get('stability'), vacuity_probe=results[un].get('vacuity')) for un in units},
            bounded=(extra or {}).get('bounded', {}),
            audits=(extra or {}).get('audits', []),
            kani_time_s=(extra or {}).get('kani_time_s', {}),
            known_findings=known_hits,
            undecided=undecided,
            second_opinion_notes=notes,
            not_covered_clauses=spec.get('not_covered', []),
            explanation=spec.get('explanation', ''),
        ),
        assumptions=sorted(assumptions) + spec.get('assumptions', []),
        wall_s=round(time.time() - t0, 2),
        violations=nviol,
    )
    with open(os.path.join(EVID, pid + '.json'), 'w') as f:
        json.dump(ev, f, indent=1)
    for ln in lines:
        print(ln)
    print('%s %s: obligations=%d discharged=%d violations=%d known=%d undecided=%d wall=%.1fs' % (
        pid, tier, n_ob, n_dis, nviol, len(known_hits), len(undecided), time.time() - t0))
    if replay_ob:
        st = obligations.get(replay_ob, {}).get('status')
        print('REPLAY obligation=%s : %s' % (replay_ob, {'failed': 'REPRODUCED (fails again on the current tree)', 'discharged': 'not reproduced (discharged on the current tree)',
                                                          'known-finding': 'reproduced (recorded known finding)'}.get(st, 'not generated on the current tree (undecided)')))
    if nviol:
        return 1
    if undecided:
        for x in undecided:
            print('UNDECIDED:', x)
        return 2
    return 0


def update_ledger(args):
    """record the tags currently generated AND discharged (manual step, unchanged tree only)."""
    ledger = json.load(open(LEDGER)) if os.path.exists(LEDGER) else {}
    which = args or list(PROPS.PROPS)
    for pid in which:
        evp = os.path.join(EVID, pid + '.json')
        ev = json.load(open(evp))
        if ev.get('tier') != 'quick':
            # the ledger lists what the QUICK tier discharges (the thorough tier adds obligations the quick tier never generates)
            print('ledger NOT updated for %s: its last run was a %s run -- run `./check %s quick` first' % (pid, ev.get('tier'), pid))
            continue
        und = [x for x in ev['coverage'].get('undecided', []) if not x.startswith('ledger obligations no longer generated')]
        bad = [t for t, st in ev['coverage']['obligation_status'].items() if st not in ('discharged', 'known-finding')]
        if und or bad:
            print('ledger NOT updated for %s: its last run was not clean (%d undecided, %d not discharged) -- repair first' % (pid, len(und), len(bad)))
            continue
        ledger[pid] = sorted(t for t, st in ev['coverage']['obligation_status'].items() if st == 'discharged')
    os.makedirs(os.path.dirname(LEDGER), exist_ok=True)
    json.dump(ledger, open(LEDGER, 'w'), indent=1, sort_keys=True)
    print('ledger updated for', which)
    return 0


if __name__ == '__main__':
    sys.exit(main(sys.argv))
