#!/bin/bash
# offline setup: nothing is downloaded; checks the tools and warms the Kani build of the harness crate
set -e
cd "$(dirname "$0")"
export PATH="$PATH:/root/.cargo/bin"
verus --version >/dev/null
mkdir -p gen evidence replays .cache
cp -f /repo/Cargo.lock kx/Cargo.lock
(cd kx && CARGO_NET_OFFLINE=true cargo kani -Z stubbing --output-format=terse --harness stub_u16_from_be_bytes >/dev/null 2>&1) || echo "warning: kani warm-up failed"
echo "setup ok"
