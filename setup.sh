#!/bin/bash
# offline setup: nothing is downloaded; checks tools and warms caches
set -e
cd "$(dirname "$0")"
verus --version >/dev/null
mkdir -p gen evidence replays .cache
echo "setup ok"
