//! No-op stand-in for the `tracing` macros used by srtla-core (Kani only).
//! The arguments are not evaluated: every log call site in srtla-core passes
//! side-effect-free expressions (field reads and arithmetic on locals).
#[macro_export] macro_rules! debug { ($($t:tt)*) => {{}}; }
#[macro_export] macro_rules! info { ($($t:tt)*) => {{}}; }
#[macro_export] macro_rules! warn { ($($t:tt)*) => {{}}; }
#[macro_export] macro_rules! trace { ($($t:tt)*) => {{}}; }
#[macro_export] macro_rules! error { ($($t:tt)*) => {{}}; }
