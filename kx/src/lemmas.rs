//! Float-lemma table: every lemma ASSUMED in the Verus world (vx/units/world_spec.py, same names, same formulas)
//! is PROVED here bit-precisely on IEEE f64.
#[kani::proof]
fn lemma_score_gt_neg1() {
    let s: i32 = kani::any();
    kani::assume(s >= 0);
    let w: f64 = if kani::any() { 0.8 } else { 1.0 };
    let q: f64 = kani::any();
    kani::assume(q >= 0.35 && q <= 1.2);
    let cap: f64 = kani::any();
    kani::assume(cap >= 0.1 && cap <= 1.0);
    let gate: f64 = if kani::any() { 0.02 } else { 1.0 };
    let base = s as f64 * w;
    assert!(base * q * cap * gate > -1.0);     // quality scoring on
    assert!(base * cap * gate > -1.0);         // quality scoring off
    kani::cover!(s > 0);
}
#[kani::proof]
fn lemma_one_is_q_ok() {
    let one: f64 = 1.0;
    assert!(one >= 0.35 && one <= 1.2);
}
