//! C15 / C14: builders and builder<->decoder round trips on the real srtla-protocol crate.
use srtla_protocol::*;

#[kani::proof]
fn reg_packets_layout() {
    let id: [u8; SRTLA_ID_LEN] = kani::any();
    let p1 = create_reg1_packet(&id);
    let p2 = create_reg2_packet(&id);
    assert!(p1.len() == 258 && p2.len() == 258);
    assert!(get_packet_type(&p1) == Some(0x9200) && get_packet_type(&p2) == Some(0x9201));
    let i: usize = kani::any();
    kani::assume(i < 256);
    assert!(p1[2 + i] == id[i] && p2[2 + i] == id[i]);
    assert!(is_srtla_reg1(&p1) && is_srtla_reg2(&p2));
    kani::cover!(true);
}

#[kani::proof]
#[kani::unwind(9)]
fn keepalive_roundtrip() {
    let now: u64 = kani::any();
    let p = create_keepalive_packet(now);
    assert!(p.len() == 10);
    assert!(get_packet_type(&p) == Some(0x9000));
    assert!(extract_keepalive_timestamp(&p) == Some(now));
    kani::cover!(true);
}

#[kani::proof]
#[kani::unwind(9)]
fn keepalive_ext_roundtrip() {
    let now: u64 = kani::any();
    let info = ConnectionInfo { conn_id: kani::any(), window: kani::any(), in_flight: kani::any(), rtt_ms: kani::any(),
                                nak_count: kani::any(), bitrate_bytes_per_sec: kani::any() };
    let p = create_keepalive_packet_ext(info, now);
    assert!(p.len() == 38);
    let std = create_keepalive_packet(now);
    let i: usize = kani::any();
    kani::assume(i < 10);
    assert!(p[i] == std[i]);
    assert!(extract_keepalive_timestamp(&p) == Some(now));
    assert!(extract_keepalive_conn_info(&p) == Some(info));
    kani::cover!(true);
}

#[kani::proof]
#[kani::unwind(6)]
fn ack_packet_roundtrip_le4() {
    // bounded: up to 4 acknowledged numbers
    let n: usize = kani::any();
    kani::assume(n >= 1 && n <= 4);
    let vals: [u32; 4] = kani::any();
    let p = create_ack_packet(&vals[..n]);
    assert!(p.len() == 4 + 4 * n);
    assert!(get_packet_type(&p) == Some(0x9100));
    let back = parse_srtla_ack(&p);
    assert!(back.len() == n);
    let i: usize = kani::any();
    kani::assume(i < n);
    assert!(back[i] == vals[i]);
    kani::cover!(true);
}

// (a bounded harness for the 1000-entry NAK expansion cap, unwind 1003, did not finish within 15 min in this sandbox and was dropped)

// C15 / C09: every decoder returns (no panic) on every byte string of up to 24 bytes, and the fixed-offset layouts hold
#[kani::proof]
#[kani::unwind(9)]
fn decoders_total_and_layouts_le24() {
    let buf: [u8; 24] = kani::any();
    let len: usize = kani::any();
    kani::assume(len <= 24);
    let b = &buf[..len];
    let t = get_packet_type(b);
    assert!(t == if len >= 2 { Some(((buf[0] as u16) << 8) | buf[1] as u16) } else { None });
    let ack = parse_srt_ack(b);
    let want = if len >= 20 && t == Some(0x8002) { Some(u32::from_be_bytes([buf[16], buf[17], buf[18], buf[19]])) } else { None };
    assert!(ack == want);
    let sn = get_srt_sequence_number(b);
    assert!(sn.is_some() == (len >= 4 && buf[0] & 0x80 == 0));
    assert!(is_srt_data_retransmit(b) == (len >= 8 && buf[0] & 0x80 == 0 && buf[4] & 0x04 != 0));
    let _ = extract_keepalive_timestamp(b);
    let _ = extract_keepalive_conn_info(b);
    let acks = parse_srtla_ack(b);
    assert!(acks.len() == if len >= 8 && t == Some(0x9100) { (len - 4) / 4 } else { 0 });
}
