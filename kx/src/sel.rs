//! C11 / C13 / C14 / C06: loop-free numeric functions of the real srtla-core, full symbolic link state (complete).
use srtla_core::selection::calculate_quality_multiplier;
use srtla_core::selection::enhanced::{in_flight_cap_packets, verif_cc_soft_cap_multiplier};
use crate::util::*;

#[kani::proof]
#[kani::stub(f64::exp, exp_model)]
fn quality_multiplier_range() {
    let c = any_conn();
    let now: u64 = kani::any();
    let q = calculate_quality_multiplier(&c, now);
    assert!(q >= 0.35 && q <= 1.1 * 1.03);       // C11: documented range; implies the lemma-table range [0.35, 1.2]
    assert!(q <= 1.2);
    kani::cover!(q < 0.5);
    kani::cover!(q > 1.1);
}

#[kani::proof]
fn soft_cap_range() {
    let c = any_conn();
    let m = verif_cc_soft_cap_multiplier(&c);
    assert!(m >= 0.1 && m <= 1.0);               // C11: soft-cap factor in [0.1, 1]
    kani::cover!(m < 1.0);
}

#[kani::proof]
fn in_flight_cap_at_least_one() {
    let t: u64 = kani::any();
    let r: f64 = kani::any();
    match in_flight_cap_packets(t, r) {
        None => assert!(t == 0),
        Some(cap) => assert!(t != 0 && cap >= 1),
    }
}

#[kani::proof]
fn smooth_rtt_never_negative_or_nan() {
    let c = any_conn();
    let s = c.get_smooth_rtt_ms();
    assert!(s >= 0.0);                            // C14: implies not NaN
}

#[kani::proof]
fn effective_stall_window_formula() {
    let c = any_conn();
    let ceiling: u64 = kani::any();
    let srtt = c.get_smooth_rtt_ms();
    let e = c.effective_stall_stale_ms(ceiling);
    if srtt <= 0.0 {
        assert!(e == ceiling);                    // no RTT baseline => the configured ceiling
    } else {
        let four = (srtt as u64).saturating_mul(4);
        let clamped = if four < 1000 { 1000 } else { four };
        assert!(e == if clamped < ceiling { clamped } else { ceiling });   // clamp(4 x sRTT, 1000, ceiling); a ceiling below the floor wins
    }
    let p = c.silence_pull_window_ms(ceiling);
    assert!(p <= e);
}

// C06: time-based window recovery on the real code (f64 -> i32 cast inside): for every link state, clock value and RTT velocity
// the debug-only `format!("{:.1}s", ..)` on the growth path is replaced by an empty String (float formatting dominates CBMC otherwise)
pub fn fmt_stub(_args: core::fmt::Arguments<'_>) -> String { String::new() }

#[kani::proof]
#[kani::stub(alloc::fmt::format, fmt_stub)]
fn window_recovery_contract() {
    let mut c = any_conn();
    kani::assume(c.window >= 1000 && c.window <= 60000);
    let w0 = c.window;
    let connected = c.connected;
    let frm0 = srtla_core::verif_hooks::congestion_mut(&mut c).fast_recovery_mode;
    let now: u64 = kani::any();
    c.perform_window_recovery(now);
    let frm1 = srtla_core::verif_hooks::congestion_mut(&mut c).fast_recovery_mode;
    assert!(c.window >= 1000 && c.window <= 60000);     // stays in range
    assert!(c.window >= w0);                             // never decreases
    assert!(c.window - w0 <= 120);                       // at most 2 x 30 x 2 per tick
    if !connected { assert!(c.window == w0); }
    if frm0 && !frm1 { assert!(c.window >= 12000); }     // fast recovery left only at >= 12000
    if !frm0 { assert!(!frm1); }                         // never entered here
    kani::cover!(c.window > w0);
    kani::cover!(frm0 && !frm1);
}

// C14: the extended keepalive built by the real connection carries the send timestamp and the link's current telemetry
#[kani::proof]
#[kani::unwind(9)]
fn keepalive_packet_telemetry() {
    use srtla_protocol::*;
    let mut c = any_conn();
    let now: u64 = kani::any();
    let (id, w, inf) = (c.conn_id, c.window, c.in_flight_packets);
    let nak = srtla_core::verif_hooks::congestion_mut(&mut c).nak_count;
    let rtt = c.rtt.kalman_rtt.value();
    let bps = srtla_core::verif_hooks::bitrate_mut(&mut c).current_bitrate_bps;
    let pkt = c.keepalive_packet(now);
    assert!(pkt.len() == 38);
    let std = create_keepalive_packet(now);
    let i: usize = kani::any();
    kani::assume(i < 10);
    assert!(pkt[i] == std[i]);                                           // first 10 bytes = standard keepalive with the send timestamp
    assert!(extract_keepalive_timestamp(&pkt) == Some(now));
    let info = extract_keepalive_conn_info(&pkt).unwrap();
    assert!(info.conn_id == id as u32 && info.window == w && info.in_flight == inf && info.nak_count == nak as u32);
    assert!(info.rtt_ms == rtt as u32 && info.bitrate_bytes_per_sec == (bps / 8.0) as u32);
    assert!(c.last_sent == Some(now));
    assert!(srtla_core::verif_hooks::get_private(&c).last_keepalive_sent == Some(now));
}
