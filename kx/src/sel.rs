//! C11 / C13 / C14 / C06: loop-free numeric functions of the real srtla-core, full symbolic link state (complete).
use srtla_core::selection::calculate_quality_multiplier;
use srtla_core::selection::enhanced::{in_flight_cap_packets, verif_cc_soft_cap_multiplier};
use crate::util::*;

#[kani::proof]
#[kani::stub(f64::exp, exp_model)]
fn quality_multiplier_range() {
    let c = any_conn();
    let now: u64 = kani::any();
    let q = calculate_quality_multiplier(&c, now);
    assert!(q >= 0.35 && q <= 1.1 * 1.03);       // C11: documented range; implies the lemma-table range [0.35, 1.2]
    assert!(q <= 1.2);
    kani::cover!(q < 0.5);
    kani::cover!(q > 1.1);
}

#[kani::proof]
fn soft_cap_range() {
    let c = any_conn();
    let m = verif_cc_soft_cap_multiplier(&c);
    assert!(m >= 0.1 && m <= 1.0);               // C11: soft-cap factor in [0.1, 1]
    kani::cover!(m < 1.0);
}

#[kani::proof]
fn in_flight_cap_at_least_one() {
    let t: u64 = kani::any();
    let r: f64 = kani::any();
    match in_flight_cap_packets(t, r) {
        None => assert!(t == 0),
        Some(cap) => assert!(t != 0 && cap >= 1),
    }
}

// (the fallback / formula of in_flight_cap_packets is pinned in Verus against a spec function over uninterpreted float operations:
// C11.select.enhanced.in_flight_cap_is_the_documented_cap_and_1ms_without_an_rtt_baseline.  A Kani harness comparing two symbolic runs,
// cap(t, bad rtt) == cap(t, 1.0), did not terminate in 900 s -- f64 multiply/divide circuits -- and is not kept.)

#[kani::proof]
fn smooth_rtt_never_negative_or_nan() {
    let c = any_conn();
    let s = c.get_smooth_rtt_ms();
    assert!(s >= 0.0);                            // C14: implies not NaN
}

#[kani::proof]
fn effective_stall_window_formula() {
    let c = any_conn();
    let ceiling: u64 = kani::any();
    let srtt = c.get_smooth_rtt_ms();
    let e = c.effective_stall_stale_ms(ceiling);
    if srtt <= 0.0 {
        assert!(e == ceiling);                    // no RTT baseline => the configured ceiling
    } else {
        let four = (srtt as u64).saturating_mul(4);
        let clamped = if four < 1000 { 1000 } else { four };
        assert!(e == if clamped < ceiling { clamped } else { ceiling });   // clamp(4 x sRTT, 1000, ceiling); a ceiling below the floor wins
    }
    let p = c.silence_pull_window_ms(ceiling);
    assert!(p <= e);
}

// C06: time-based window recovery on the real code (f64 -> i32 cast inside): for every link state, clock value and RTT velocity
// the debug-only `format!("{:.1}s", ..)` on the growth path is replaced by an empty String (float formatting dominates CBMC otherwise)
pub fn fmt_stub(_args: core::fmt::Arguments<'_>) -> String { String::new() }

#[kani::proof]
#[kani::stub(alloc::fmt::format, fmt_stub)]
fn window_recovery_contract() {
    let mut c = any_conn();
    kani::assume(c.window >= 1000 && c.window <= 60000);
    let w0 = c.window;
    let connected = c.connected;
    let frm0 = srtla_core::verif_hooks::congestion_mut(&mut c).fast_recovery_mode;
    let now: u64 = kani::any();
    c.perform_window_recovery(now);
    let frm1 = srtla_core::verif_hooks::congestion_mut(&mut c).fast_recovery_mode;
    assert!(c.window >= 1000 && c.window <= 60000);     // stays in range
    assert!(c.window >= w0);                             // never decreases
    assert!(c.window - w0 <= 120);                       // at most 2 x 30 x 2 per tick
    if !connected { assert!(c.window == w0); }
    if frm0 && !frm1 { assert!(c.window >= 12000); }     // fast recovery left only at >= 12000
    if !frm0 { assert!(!frm1); }                         // never entered here
    kani::cover!(c.window > w0);
    kani::cover!(frm0 && !frm1);
}

// C14: the extended keepalive built by the real connection carries the send timestamp and the link's current telemetry
#[kani::proof]
#[kani::unwind(9)]
fn keepalive_packet_telemetry() {
    use srtla_protocol::*;
    let mut c = any_conn();
    let now: u64 = kani::any();
    let (id, w, inf) = (c.conn_id, c.window, c.in_flight_packets);
    let nak = srtla_core::verif_hooks::congestion_mut(&mut c).nak_count;
    let rtt = c.rtt.kalman_rtt.value();
    let bps = srtla_core::verif_hooks::bitrate_mut(&mut c).current_bitrate_bps;
    let pkt = c.keepalive_packet(now);
    assert!(pkt.len() == 38);
    let std = create_keepalive_packet(now);
    let i: usize = kani::any();
    kani::assume(i < 10);
    assert!(pkt[i] == std[i]);                                           // first 10 bytes = standard keepalive with the send timestamp
    assert!(extract_keepalive_timestamp(&pkt) == Some(now));
    let info = extract_keepalive_conn_info(&pkt).unwrap();
    assert!(info.conn_id == id as u32 && info.window == w && info.in_flight == inf && info.nak_count == nak as u32);
    assert!(info.rtt_ms == rtt as u32 && info.bitrate_bytes_per_sec == (bps / 8.0) as u32);
    assert!(c.last_sent == Some(now));
    assert!(srtla_core::verif_hooks::get_private(&c).last_keepalive_sent == Some(now));
}

// ---------------------------------------------------------------------------------------------------------------
// Bounded cross-checks of the whole selector on the compiled code (structure-independent: they do not depend on how the
// source is written, so a restructured gate / selector that escapes the Verus extraction is still searched for
// counterexamples).  bounded: exactly 2 links, classic mode.  Never counted as proved.
use srtla_core::config_snapshot::ConfigSnapshot;
use srtla_core::mode::SchedulingMode;
use srtla_core::selection::select_connection_idx;
use srtla_core::verif_hooks as vh;

fn usable(c: &srtla_core::connection::SrtlaConnection, now: u64) -> bool {
    c.connected && c.is_schedulable() && !c.is_timed_out(now)
}

#[kani::proof]
#[kani::unwind(3)]
fn sel_classic_n2_no_blackout_eligible_frame() {
    let mut conns = [any_conn(), any_conn()];
    let now: u64 = kani::any();
    kani::assume(now > 0 && now < CLOCK_MAX);
    for c in conns.iter() {
        kani::assume(c.window >= 0);
        let p = vh::get_private(c);
        kani::assume(p.stall_gate_events < u64::MAX / 2 && p.silence_pulls < u64::MAX / 2);
        kani::assume(p.stall_latched_since_ms != 0 || p.stall_recovery_since_ms == 0);
    }
    let cfg = ConfigSnapshot { mode: SchedulingMode::Classic, quality_enabled: kani::any(), stall_deselect: kani::any(),
                               stall_min_in_flight: kani::any(), stall_ack_stale_ms: kani::any(), conn_timeout_ms: kani::any() };
    let before = [(conns[0].connected, conns[0].window, conns[0].in_flight_packets, conns[0].last_received, conns[0].last_sent),
                  (conns[1].connected, conns[1].window, conns[1].in_flight_packets, conns[1].last_received, conns[1].last_sent)];
    let last: Option<usize> = kani::any();
    let r = select_connection_idx(&mut conns, last, now, &cfg);
    // C03: a usable uplink always gets the packet
    if usable(&conns[0], now) || usable(&conns[1], now) { assert!(r.is_some()); }
    // C04: the chosen uplink is registered, not timed out, not stall-gated
    if let Some(i) = r {
        assert!(i < 2);
        assert!(conns[i].is_schedulable() && !conns[i].is_timed_out(now) && !conns[i].is_stall_gated());
    }
    // C12: a decision never changes liveness / accounting state; guard off clears every flag
    for k in 0..2 {
        assert!((conns[k].connected, conns[k].window, conns[k].in_flight_packets, conns[k].last_received, conns[k].last_sent) == before[k]);
        if !cfg.stall_deselect {
            let p = vh::get_private(&conns[k]);
            assert!(!p.stall_gated && !p.silence_pulled && p.stall_latched_since_ms == 0 && p.stall_recovery_since_ms == 0);
        }
    }
    // C10: classic + guard off = largest window / (in-flight + queued + 1), first maximum wins
    if !cfg.stall_deselect {
        if let Some(i) = r {
            let s0 = conns[0].get_score(); let s1 = conns[1].get_score();
            let e0 = conns[0].is_schedulable() && !conns[0].is_timed_out(now);
            let e1 = conns[1].is_schedulable() && !conns[1].is_timed_out(now);
            if i == 0 { assert!(e0 && (!e1 || s0 >= s1)); } else { assert!(e1 && (!e0 || s1 > s0)); }
        }
    }
}

// C12 (non-interference, a two-run property): with the stall guard off "each decision is identical to the decision on the same links with
// no stall history at all".  The guard clears flags and latches but not the lifetime counters, so every SCORE INPUT must be independent of
// the whole stall state.  Same link, same clock, two arbitrary stall histories: the quality multiplier and the soft-cap factor are bitwise
// the same.  Loop-free, full symbolic domain.
#[kani::proof]
#[kani::stub(f64::exp, exp_det)]
fn score_factors_ignore_stall_history() {
    use srtla_core::verif_hooks as vh;
    let mut c = any_conn();
    let now: u64 = kani::any();
    let q1 = calculate_quality_multiplier(&c, now);
    let m1 = verif_cc_soft_cap_multiplier(&c);
    let mut p = vh::get_private(&c);
    p.stall_gated = kani::any();
    p.stall_latched_since_ms = kani::any();
    p.stall_recovery_since_ms = kani::any();
    p.stall_gate_events = kani::any();
    p.stall_probe_counter = kani::any();
    p.silence_pulled = kani::any();
    p.silence_pulls = kani::any();
    vh::set_private(&mut c, p);
    let q2 = calculate_quality_multiplier(&c, now);
    let m2 = verif_cc_soft_cap_multiplier(&c);
    assert!(q1.to_bits() == q2.to_bits());
    assert!(m1.to_bits() == m2.to_bits());
    kani::cover!(vh::get_private(&c).stall_gate_events > 0);
}
