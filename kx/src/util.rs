//! Build arbitrary SrtlaConnection states on the real type (constructor + verif-hooks setters).
use std::net::{IpAddr, Ipv4Addr};
use srtla_core::connection::{LinkPhase, SrtlaConnection};
use srtla_core::kalman::KalmanFilter;
use srtla_core::verif_hooks as vh;

pub const CLOCK_MAX: u64 = 1 << 62;

pub fn any_phase() -> LinkPhase {
    match kani::any::<u8>() % 4 {
        0 => LinkPhase::Registering,
        1 => LinkPhase::Warming { rtt_probes: kani::any(), entered_ms: kani::any() },
        2 => LinkPhase::Live,
        _ => LinkPhase::Degraded,
    }
}

/// a connection whose scalar state is fully symbolic; collections (packet log, batch queue, RTT windows) stay empty
pub fn any_conn() -> SrtlaConnection {
    let now0: u64 = kani::any();
    kani::assume(now0 < CLOCK_MAX);
    let mut c = SrtlaConnection::new_registering(kani::any(), String::new(), IpAddr::V4(Ipv4Addr::LOCALHOST), now0);
    c.connected = kani::any();
    c.window = kani::any();
    c.in_flight_packets = kani::any();
    c.last_received = kani::any();
    c.last_sent = kani::any();
    c.last_ack_or_rtt_sample_ms = kani::any();
    c.weak = kani::any();
    c.cc_backing_off = kani::any();
    c.cc_target_bps = kani::any();
    c.loss_degraded = kani::any();
    c.reconnection.last_reconnect_attempt_ms = kani::any();
    c.reconnection.reconnect_failure_count = kani::any();
    c.reconnection.connection_established_ms = kani::any();
    c.reconnection.startup_grace_deadline_ms = kani::any();
    c.rtt.kalman_rtt = KalmanFilter::verif_from_parts(kani::any(), kani::any(), [0.0; 4], kani::any());
    c.rtt.rtt_min_ms = kani::any();
    c.rtt.last_keepalive_sent_ms = kani::any();
    c.rtt.waiting_for_keepalive_response = kani::any();
    c.rtt.last_rtt_measurement_ms = kani::any();
    vh::set_phase(&mut c, any_phase());
    {
        let cc = vh::congestion_mut(&mut c);
        cc.nak_count = kani::any();
        cc.last_nak_time_ms = kani::any();
        cc.last_window_increase_ms = kani::any();
        cc.fast_recovery_mode = kani::any();
        cc.nak_burst_count = kani::any();
        cc.nak_burst_start_time_ms = kani::any();
    }
    vh::bitrate_mut(&mut c).current_bitrate_bps = kani::any();
    let p = vh::ConnPrivate {
        stall_gated: kani::any(), stall_latched_since_ms: kani::any(), stall_recovery_since_ms: kani::any(),
        stall_gate_events: kani::any(), stall_probe_counter: kani::any(), silence_pulled: kani::any(), silence_pulls: kani::any(),
        conn_timeout_ms: kani::any(), quality_multiplier: kani::any(), quality_last_calculated_ms: kani::any(),
        highest_acked_seq: kani::any(), last_keepalive_sent: kani::any(),
    };
    vh::set_private(&mut c, p);
    c
}

pub fn exp_model(x: f64) -> f64 {
    let r: f64 = kani::any();
    kani::assume(r >= 0.0 && r.is_finite());
    if x <= 0.0 { kani::assume(r <= 1.0); }
    r
}

// deterministic stand-in for exp in TWO-RUN (non-interference) harnesses: what matters there is that equal arguments give equal results
// (exp is a function); the value bounds are those of `exp_model`.
pub fn exp_det(x: f64) -> f64 {
    if x <= 0.0 { 1.0 / (1.0 - x) } else { 1.0 + x }
}
