//! Validation of the integer std stubs of the Verus prelude (vx/prelude.py): same formulas, real std functions.
#[kani::proof]
fn stub_u16_from_be_bytes() {
    let a: u8 = kani::any(); let b: u8 = kani::any();
    assert_eq!(u16::from_be_bytes([a, b]), ((a as u16) << 8) | (b as u16));
}
#[kani::proof]
fn stub_u32_from_be_bytes() {
    let (a, b, c, d): (u8, u8, u8, u8) = (kani::any(), kani::any(), kani::any(), kani::any());
    let spec = ((a as u32) << 24) | ((b as u32) << 16) | ((c as u32) << 8) | (d as u32);
    assert_eq!(u32::from_be_bytes([a, b, c, d]), spec);
    assert_eq!(i32::from_be_bytes([a, b, c, d]), spec as i32);
}
#[kani::proof]
fn stub_saturating_i32() {
    let a: i32 = kani::any(); let b: i32 = kani::any();
    let sat = |x: i64| -> i32 { if x > i32::MAX as i64 { i32::MAX } else if x < i32::MIN as i64 { i32::MIN } else { x as i32 } };
    assert_eq!(a.saturating_add(b), sat(a as i64 + b as i64));
    assert_eq!(a.saturating_sub(b), sat(a as i64 - b as i64));
    assert_eq!(a.saturating_mul(b), sat(a as i64 * b as i64));
    assert_eq!(std::cmp::min(a, b), if a <= b { a } else { b });
}
#[kani::proof]
fn stub_unsigned_abs() {
    let x: i64 = kani::any();
    let spec: u128 = if x < 0 { (-(x as i128)) as u128 } else { x as u128 };
    assert_eq!(x.unsigned_abs() as u128, spec);
}
// put_be16 / put_be32 (vx/units/proto.py): `x.to_be_bytes()` written into a buffer reads back as x under the shift-or spec
#[kani::proof]
fn stub_to_be_bytes_inverse() {
    let x: u32 = kani::any();
    let b = x.to_be_bytes();
    assert_eq!(((b[0] as u32) << 24) | ((b[1] as u32) << 16) | ((b[2] as u32) << 8) | (b[3] as u32), x);
    let y: u16 = kani::any();
    let c = y.to_be_bytes();
    assert_eq!(((c[0] as u16) << 8) | (c[1] as u16), y);
}
