//! Kani harnesses on the real srtla-core / srtla-protocol crates (path dependencies on /repo).
#![allow(unused_imports, dead_code)]
#[cfg(kani)] mod util;
#[cfg(kani)] mod stubs;
#[cfg(kani)] mod proto;
#[cfg(kani)] mod cc;
#[cfg(kani)] mod lemmas;
#[cfg(kani)] mod sel;
