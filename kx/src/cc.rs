//! C16: one-step contracts of LinkCongestionState::tick / update_loss_ewma on the real code, over EVERY
//! pre-state satisfying wf (built through the verif-hooks constructor; loss_samples empty, window aggregates
//! symbolic - the target computation reads only the aggregates).  Loop-free => complete, no unwinding bound.
use srtla_core::selection::link_cc::{CcState, ClimbMode, LinkCongestionState, VerifCcParts};

pub const FLOOR: u64 = 100_000;
pub const CEIL: u64 = 200_000_000;

pub fn exp_model(x: f64) -> f64 {
    // assumption: exp(x) is finite-or-+inf-free and non-negative, and <= 1 for x <= 0 (true of the real exp;
    // Kani's own model of exp is a nondeterministic value)
    let r: f64 = kani::any();
    kani::assume(r >= 0.0 && r.is_finite());
    if x <= 0.0 { kani::assume(r <= 1.0); }
    r
}

// Modular step: inside tick() the call to update_loss_ewma is replaced by a no-op.  Sound for every clause about
// target_bps / state because (a) harness cc_loss_latch_hysteresis proves on the real update_loss_ewma that it writes
// only loss_ewma, loss_ewma_last_ms, loss_high_since_ms, loss_degraded, and (b) tick() reads none of these four
// fields (syntactic audit `cc_tick_does_not_read_loss_latch`).  Without it one harness needs 370-490 s (measured).
pub fn loss_ewma_frame_only(_s: &mut LinkCongestionState, _loss_pm: u32, _now: u64) {}

fn any_state() -> CcState {
    match kani::any::<u8>() % 5 { 0 => CcState::Bootstrap, 1 => CcState::Climbing, 2 => CcState::Holding, 3 => CcState::BackingOff, _ => CcState::Drain }
}
fn any_mode() -> ClimbMode {
    match kani::any::<u8>() % 3 { 0 => ClimbMode::Normal, 1 => ClimbMode::Hai, _ => ClimbMode::FastRecovery }
}

pub fn wf(p: &VerifCcParts) -> bool {
    p.target_bps >= FLOOR && p.target_bps <= CEIL
        && (p.backoff_ticks < 3 || (p.backoff_ticks == 3 && p.loss_uncongestive)) && p.uncongestive_ticks < 30
        && p.loss_ewma >= 0.0 && p.loss_ewma <= 1.0
        && p.fast_recovery_ticks <= 5
        // no RTT sample yet <=> still bootstrapping at the floor
        && (!(p.rtt_ewma_ms.is_finite() && p.rtt_ewma_ms != 0.0) || p.rtt_ewma_ms > 0.0)
}

pub fn any_parts() -> VerifCcParts {
    VerifCcParts {
        state: any_state(), climb_mode: any_mode(), target_bps: kani::any(),
        rtt_ewma_ms: kani::any(), rtt_var_ms: kani::any(), rtt_min_ms: kani::any(),
        rtt_min_stamp_ms: kani::any(), last_rtt_update_ms: kani::any(),
        window_lost: kani::any(), window_sent: kani::any(), fast_recovery_ticks: kani::any(),
        loss_ewma: kani::any(), loss_ewma_last_ms: kani::any(), loss_high_since_ms: kani::any(),
        loss_degraded: kani::any(), backoff_ticks: kani::any(), backoff_entry_loss_pm: kani::any(),
        loss_uncongestive: kani::any(), uncongestive_ticks: kani::any(),
    }
}

fn step() -> (VerifCcParts, VerifCcParts, u64, u64) {
    let p = any_parts();
    kani::assume(wf(&p));
    let mut s = LinkCongestionState::verif_from_parts(p);
    let obs: u64 = kani::any();
    let now: u64 = kani::any();
    s.tick(obs, now);
    (p, s.verif_parts(), obs, now)
}

// the representation invariant `wf` (which the step harnesses above and the Verus unit `cc` -- eff_wf -- take as their precondition) holds
// for a freshly created controller; every operation preserves it (cc_tick_range_and_wf here, `final(self).eff_wf()` / the frames in unit cc)
#[kani::proof]
fn cc_default_state_is_well_formed() {
    let s = LinkCongestionState::default();
    let p = s.verif_parts();
    assert!(wf(&p));
    assert!(p.state == CcState::Bootstrap && p.target_bps == FLOOR && !p.loss_degraded && !p.loss_uncongestive && p.backoff_ticks == 0 && p.uncongestive_ticks == 0);
    assert!(s.verif_loss_samples_len() == 0 && p.window_sent == 0 && p.window_lost == 0);
}

fn has_rtt(p: &VerifCcParts) -> bool { p.rtt_ewma_ms.is_finite() && p.rtt_ewma_ms != 0.0 }

#[kani::proof]
#[kani::stub(srtla_core::selection::link_cc::LinkCongestionState::update_loss_ewma, loss_ewma_frame_only)]
fn cc_tick_range_and_wf() {
    let (p, q, _obs, _now) = step();
    assert!(q.target_bps >= 100_000 && q.target_bps <= 200_000_000);       // C16: target in [100 kbit/s, 200 Mbit/s]
    assert!((q.backoff_ticks < 3 || (q.backoff_ticks == 3 && q.loss_uncongestive)) && q.uncongestive_ticks < 30 && q.fast_recovery_ticks <= 5);   // wf is inductive
    if !has_rtt(&p) { assert!(q.target_bps == 100_000 && q.state == CcState::Bootstrap); }   // floor until an RTT sample exists
    kani::cover!(has_rtt(&p) && q.target_bps > 100_000);
}

#[kani::proof]
#[kani::stub(srtla_core::selection::link_cc::LinkCongestionState::update_loss_ewma, loss_ewma_frame_only)]
fn cc_tick_lowered_only_by_backoff_or_drain_entry() {
    let (p, q, _obs, _now) = step();
    if q.target_bps < p.target_bps {
        assert!(q.state == CcState::BackingOff || (q.state == CcState::Drain && p.state != CcState::Drain) || !has_rtt(&p));
    }
    kani::cover!(q.target_bps < p.target_bps);
}

#[kani::proof]
#[kani::stub(srtla_core::selection::link_cc::LinkCongestionState::update_loss_ewma, loss_ewma_frame_only)]
fn cc_tick_backoff_never_raises_never_below_delivered() {
    let (p, q, obs, _now) = step();
    kani::assume(p.target_bps != FLOOR);          // the floor case is the re-seed finding, isolated below
    if q.state == CcState::BackingOff {
        assert!(q.target_bps <= p.target_bps);                                   // a loss back-off never raises the target
        let delivered = if obs < p.target_bps { obs } else { p.target_bps };
        assert!(q.target_bps >= delivered);                                      // ... and never cuts below the measured delivered rate
    }
    kani::cover!(q.state == CcState::BackingOff && q.target_bps < p.target_bps);
}

// numeric factor (x0.85): needs reasoning through the f64 multiplier/divider; thorough tier only, may not terminate
#[kani::proof]
#[kani::stub(srtla_core::selection::link_cc::LinkCongestionState::update_loss_ewma, loss_ewma_frame_only)]
fn cc_tick_backoff_085() {
    let (p, q, _obs, _now) = step();
    kani::assume(p.target_bps != FLOOR);
    if q.state == CcState::BackingOff {
        assert!((q.target_bps as u64) * 1000 + 1000 >= (p.target_bps as u64) * 850);   // x0.85 (1 bps truncation)
    }
}

#[kani::proof]
#[kani::stub(srtla_core::selection::link_cc::LinkCongestionState::update_loss_ewma, loss_ewma_frame_only)]
fn cc_tick_drain_cuts_once() {
    let (p, q, _obs, _now) = step();
    kani::assume(p.target_bps != FLOOR);
    if q.state == CcState::Drain {
        if p.state != CcState::Drain { assert!(q.target_bps <= p.target_bps); }      // the cut happens on entry ...
        else { assert!(q.target_bps == p.target_bps); }                               // ... and only once
    }
    kani::cover!(q.state == CcState::Drain && p.state != CcState::Drain && q.target_bps < p.target_bps);
    kani::cover!(q.state == CcState::Drain && p.state == CcState::Drain);
}

#[kani::proof]
#[kani::stub(srtla_core::selection::link_cc::LinkCongestionState::update_loss_ewma, loss_ewma_frame_only)]
fn cc_tick_grows_only_when_climbing_and_never_beyond_2x_measured() {
    let (p, q, obs, _now) = step();
    kani::assume(p.target_bps != FLOOR);
    if q.target_bps > p.target_bps {
        assert!(q.state == CcState::Climbing);
        assert!(q.target_bps <= 2 * obs.min(1_000_000_000) + 1);                      // never to beyond twice the measured rate
    }
    kani::cover!(q.target_bps > p.target_bps);
}

// numeric factors (x0.75, <= 6 %): reasoning through the f64 multiplier/divider; thorough tier only, may not terminate
#[kani::proof]
#[kani::stub(srtla_core::selection::link_cc::LinkCongestionState::update_loss_ewma, loss_ewma_frame_only)]
fn cc_tick_drain_075() {
    let (p, q, _obs, _now) = step();
    kani::assume(p.target_bps != FLOOR);
    if q.state == CcState::Drain && p.state != CcState::Drain {
        assert!((q.target_bps as u64) * 1000 + 1000 >= (p.target_bps as u64) * 750);
        assert!((q.target_bps as u64) * 1000 <= (p.target_bps as u64) * 750 + 1000 || q.target_bps == FLOOR);
    }
}
#[kani::proof]
#[kani::stub(srtla_core::selection::link_cc::LinkCongestionState::update_loss_ewma, loss_ewma_frame_only)]
fn cc_tick_growth_at_most_6_percent() {
    let (p, q, _obs, _now) = step();
    kani::assume(p.target_bps != FLOOR);
    if q.target_bps > p.target_bps {
        assert!((q.target_bps as u64) * 1000 <= (p.target_bps as u64) * 1060 + 1000);     // <= 6 % per tick
    }
}

// KNOWN FINDING (known_findings.txt): the seeding branch is keyed on target == floor, not on "first tick after
// bootstrap", so a target driven to the floor later is re-seeded to max(observed, 1 Mbit/s) in one tick.
#[kani::proof]
#[kani::stub(srtla_core::selection::link_cc::LinkCongestionState::update_loss_ewma, loss_ewma_frame_only)]
fn cc_tick_growth_bounded_at_floor_after_bootstrap() {
    let (p, q, obs, _now) = step();
    kani::assume(p.target_bps == FLOOR && p.state != CcState::Bootstrap && has_rtt(&p));
    if q.target_bps > p.target_bps {
        assert!((q.target_bps as u64) * 1000 <= (p.target_bps as u64) * 1060 + 1000);
        assert!((q.target_bps as u64) <= 2 * obs.min(1_000_000_000) + 1);
    }
}

// first tick after bootstrap: seeding from measured throughput is allowed, but stays in range (covered by range harness)

#[kani::proof]
#[kani::stub(f64::exp, exp_model)]
fn cc_loss_latch_hysteresis() {
    let p = any_parts();
    kani::assume(wf(&p));
    let mut s = LinkCongestionState::verif_from_parts(p);
    let loss_pm: u32 = kani::any();
    let now: u64 = kani::any();
    s.verif_update_loss_ewma(loss_pm, now);
    let q = s.verif_parts();
    if !p.loss_degraded && q.loss_degraded {
        assert!(q.loss_ewma > 0.55 && p.loss_high_since_ms != 0 && now.saturating_sub(p.loss_high_since_ms) >= 4000);   // latches only after > 0.55 sustained 4 s
    }
    if p.loss_degraded && !q.loss_degraded { assert!(q.loss_ewma < 0.25); }       // clears only below 0.25
    if q.loss_high_since_ms != 0 { assert!(q.loss_ewma > 0.55); }                  // the "high since" stamp survives only while above 0.55
    assert!(q.loss_high_since_ms == 0 || q.loss_high_since_ms == p.loss_high_since_ms || q.loss_high_since_ms == now);
    if q.loss_high_since_ms != 0 && p.loss_high_since_ms != 0 { assert!(q.loss_high_since_ms == p.loss_high_since_ms); }
    // frame: nothing but the four loss-latch fields is written
    assert!(q.state == p.state && q.climb_mode == p.climb_mode && q.target_bps == p.target_bps
        && q.rtt_ewma_ms.to_bits() == p.rtt_ewma_ms.to_bits() && q.rtt_var_ms.to_bits() == p.rtt_var_ms.to_bits() && q.rtt_min_ms.to_bits() == p.rtt_min_ms.to_bits()
        && q.rtt_min_stamp_ms == p.rtt_min_stamp_ms && q.last_rtt_update_ms == p.last_rtt_update_ms
        && q.window_lost == p.window_lost && q.window_sent == p.window_sent && q.fast_recovery_ticks == p.fast_recovery_ticks
        && q.backoff_ticks == p.backoff_ticks && q.backoff_entry_loss_pm == p.backoff_entry_loss_pm
        && q.loss_uncongestive == p.loss_uncongestive && q.uncongestive_ticks == p.uncongestive_ticks);
    assert!(s.verif_loss_samples_len() == 0);
    kani::cover!(!p.loss_degraded && q.loss_degraded);
    kani::cover!(p.loss_degraded && !q.loss_degraded);
}

// C16 (glue): LinkCcController::tick_all feeds each link's controller from the link's own signals.  A link that has never produced an
// RTT sample (smoothed RTT 0) must leave its first tick at the floor, in Bootstrap, whatever else the link state says -- in particular
// the 200 ms placeholder in `rtt_min_ms` must not be fed as a sample.  One link, fresh controller; the std HashMap runs symbolically.
#[kani::proof]
#[kani::unwind(4)]
#[kani::stub(srtla_core::selection::link_cc::LinkCongestionState::update_loss_ewma, loss_ewma_frame_only)]
fn cc_tick_all_sits_at_the_floor_until_an_rtt_sample_exists() {
    use srtla_core::selection::link_cc::LinkCcController;
    let conn = crate::util::any_conn();
    kani::assume(conn.get_smooth_rtt_ms() == 0.0);
    let now: u64 = kani::any();
    kani::assume(now > 0 && now < crate::util::CLOCK_MAX);
    let mut ctl = LinkCcController::new();
    let id = conn.conn_id;
    let conns = [conn];
    let snaps = ctl.tick_all(&conns, now);
    let s = snaps.get(&id).unwrap();
    assert!(s.state == CcState::Bootstrap);
    assert!(s.target_bps == 100_000);
    assert!(s.rtt_ewma_ms == 0.0);
    kani::cover!(conns[0].get_rtt_min_ms() == 200.0);
}
