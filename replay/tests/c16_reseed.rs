//! C16 KNOWN FINDING (recorded, not repaired): the seeding branch of LinkCongestionState::tick is keyed on
//! target == floor, so a target driven to the floor after bootstrap is re-seeded in one tick.
//! This test documents the behaviour: it PASSES while the finding is present.
use srtla_core::selection::link_cc::{CcState, ClimbMode, LinkCongestionState, VerifCcParts};

#[test]
fn c16_target_at_floor_after_bootstrap_is_reseeded_in_one_tick() {
    let p = VerifCcParts {
        state: CcState::Climbing, climb_mode: ClimbMode::Normal, target_bps: 100_000,
        rtt_ewma_ms: 50.0, rtt_var_ms: 1.0, rtt_min_ms: 50.0, rtt_min_stamp_ms: 0, last_rtt_update_ms: 0,
        window_lost: 0, window_sent: 0, fast_recovery_ticks: 0, loss_ewma: 0.0, loss_ewma_last_ms: 0,
        loss_high_since_ms: 0, loss_degraded: false, backoff_ticks: 0, backoff_entry_loss_pm: 0,
        loss_uncongestive: false, uncongestive_ticks: 0,
    };
    let mut s = LinkCongestionState::verif_from_parts(p);
    s.tick(35_000, 10_000);
    let q = s.verif_parts();
    // property C16 would require q.target_bps <= 106_000 and <= 2 * 35_000 + 1
    assert_eq!(q.target_bps, 1_000_000, "finding no longer reproduces: update known_findings.txt");
}
