//! C04 (fixed in /repo 6b49631): the quality ranking used by the priority override must not return a stall-gated link.
use replay::live_link;
use srtla_core::priority::select_best_quality_idx;
use srtla_core::verif_hooks as vh;

#[test]
fn c04_best_quality_never_picks_a_stall_gated_link() {
    let mut gated = live_link(1, 1_000);
    let mut p = vh::get_private(&gated);
    p.stall_gated = true;
    p.quality_multiplier = 1.1;
    vh::set_private(&mut gated, p);
    let mut healthy = live_link(2, 1_000);
    let mut q = vh::get_private(&healthy);
    q.quality_multiplier = 0.9;
    vh::set_private(&mut healthy, q);
    let conns = vec![gated, healthy];
    assert_eq!(select_best_quality_idx(&conns), Some(1));
}
