//! C03 (fixed in /repo): a link that lost its registration (REG_ERR: connected = false, phase kept) and then heard
//! another datagram (last_received = Some(now)) is schedulable and not timed out, but can never carry data.
//! It must not count as the "healthy alternative" that lets the stall guard gate the last usable link.
use replay::live_link;
use srtla_core::config_snapshot::ConfigSnapshot;
use srtla_core::mode::SchedulingMode;
use srtla_core::selection::select_connection_idx;
use srtla_core::verif_hooks as vh;

fn scenario(mode: SchedulingMode) -> Option<usize> {
    let now = 100_000u64;
    let mut zombie = live_link(1, 50_000);
    zombie.connected = false;               // REG_ERR while established ...
    zombie.last_received = Some(now - 10);  // ... then any other datagram arrived on it
    let mut usable = live_link(2, 50_000);
    usable.last_received = Some(now - 10);
    usable.in_flight_packets = 40;
    usable.last_ack_or_rtt_sample_ms = now - 10_000;   // backlog + stale delivery proof => latched
    let mut conns = vec![zombie, usable];
    let cfg = ConfigSnapshot { mode, quality_enabled: true, stall_deselect: true, ..ConfigSnapshot::default() };
    let r = select_connection_idx(&mut conns, None, now, &cfg);
    let _ = vh::get_private(&conns[1]);
    r
}

#[test]
fn c03_classic_usable_link_always_gets_the_packet() {
    assert_eq!(scenario(SchedulingMode::Classic), Some(1), "link 1 is connected, registered and not timed out");
}

#[test]
fn c03_enhanced_usable_link_always_gets_the_packet() {
    assert_eq!(scenario(SchedulingMode::Enhanced), Some(1));
}
