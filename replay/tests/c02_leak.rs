//! C02 (fixed in /repo b4b0eff): a retransmission registered at or below the cumulative-ACK high-water mark
//! must be retired by the next cumulative ACK at or beyond it.
use replay::live_link;
use srtla_core::verif_hooks as vh;

#[test]
fn c02_retransmission_below_high_water_is_retired() {
    let mut c = live_link(1, 1_000);
    for s in 90..=100 { c.register_packet(s, 1_000); }
    c.handle_srt_ack(100, 1_010);
    assert_eq!(c.in_flight_packets, 0);
    c.register_packet(50, 1_020);            // retransmission sent after the ACK passed it
    assert_eq!(c.in_flight_packets, 1);
    c.handle_srt_ack(100, 1_030);            // duplicate cumulative ACK at or beyond 50
    assert_eq!(c.in_flight_packets, 0, "packet 50 is at or below ACK 100 and must be retired");
    assert_eq!(vh::packet_log_len(&c), 0);
    c.register_packet(60, 1_040);
    c.handle_srt_ack(110, 1_050);            // in-order ACK on the <=64 fast path
    assert_eq!(c.in_flight_packets, 0);
}
