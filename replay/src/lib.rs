//! Native replays of the findings on the real crates (path dependencies on /repo).
use std::net::{IpAddr, Ipv4Addr};

use srtla_core::connection::{LinkPhase, SrtlaConnection};
use srtla_core::verif_hooks as vh;

/// An established, live link at time `now` (built through the real constructor + the REG3 path's effects).
pub fn live_link(id: u64, now: u64) -> SrtlaConnection {
    let mut c = SrtlaConnection::new_registering(id, format!("l{id}"), IpAddr::V4(Ipv4Addr::LOCALHOST), now);
    c.connected = true;
    c.last_received = Some(now);
    c.reconnection.connection_established_ms = now;
    vh::set_phase(&mut c, LinkPhase::Live);
    c
}
